"""C13 implementation harness (runs under /venv python with PYTHONPATH=/repo).

Builds crystal maps through the public API from structured specs, saves them
with orix.io.save to a real HDF5 file under /verif/build/tmp, dumps the file
tree, loads it back with orix.io.load, and emits

* ``cases``: observed record of the map before saving, the dump of the file and
  the record of the loaded map (or the exception) -- compared with the Coq model
  (save: model tree vs file; load: model applied to the REAL file tree vs loaded
  map) by tools/props/C13.py;
* ``fails``: violations of the PROPERTY found by the oracle (field-by-field
  numpy comparison original vs loaded, save-does-not-mutate, second cycle), each
  with a stable signature ``<field>:<cause>`` computed from the failing element's
  own features, not from the generator's label;
* ``tables``: the symmetry tables the model embeds, as they are in the source.
"""
import copy
import math
import os
import traceback

import numpy as np
from common import emit, payload, rng

import h5py
from diffpy.structure import Atom, Lattice, Structure
from orix import __version__ as ORIX_VERSION
from orix import io
from orix.crystal_map import CrystalMap, Phase, PhaseList, create_coordinate_arrays
from orix.quaternion import Rotation, Symmetry
from orix.quaternion import symmetry as osym

P = payload()
R = rng(P.get("seed", 0))
N = P.get("n", 200)
ONLY = P.get("only")
TMP = P.get("tmp", "/verif/build/tmp")
os.makedirs(TMP, exist_ok=True)
PI = math.pi
RESERVED = ["y", "x", "phi1", "Phi", "phi2", "improper", "phase_id", "id", "is_in_data"]

cases, fails, strata = [], [], {}


def st(k):
    strata[k] = strata.get(k, 0) + 1


def fail(sig, what, rep):
    fails.append({"sig": sig, "what": what, "replay": rep})


# ------------------------------------------------------------------ specs
NAMES = ["austenite", "ferrite", "al", "Ni3Al", "a b", "", "None", "sigma-phase", "x" * 40]
NAMES_NA = ["α-Fe", "γ", "Fe₃C", "é", "γ′-Ni₃Al"]
PROPS = ["iq", "dp", "ci", "fit", "mad", "bc", "band_slope", "IQ", "Z", "é", "0", "phi", "X"]
COLORS = ["tab:blue", "b", "blue", "xkcd:blue", "#ff0000", "r", "C1", "0.5", "lime", "tab:orange", "k",
          "w", "g", "xkcd:sky blue", "darkorange", "#1f77b4"]
UNITS = ["px", "um", "nm", "", "mm", "A"]
PGS = [g.name for g in osym._groups]
SG_BAD = list(range(3, 10))
OFFS = [1e-3, 1e-4, 1e-5]


def gen_quat(kind):
    """-> quaternion (list of 4)"""
    if kind == "gimbal0":
        return Rotation.from_euler([R.uniform(0, 2 * PI), 0.0, R.uniform(0, 2 * PI)]).data[0].tolist()
    if kind == "gimbalpi":
        return Rotation.from_euler([R.uniform(0, 2 * PI), PI, R.uniform(0, 2 * PI)]).data[0].tolist()
    if kind == "neargimbal":
        Phi = R.choice([0.0, PI]) + R.choice(OFFS) * R.choice([1, -1])
        Phi = abs(Phi) if Phi < PI else 2 * PI - Phi
        return Rotation.from_euler([R.uniform(0, 2 * PI), Phi, R.uniform(0, 2 * PI)]).data[0].tolist()
    if kind == "identity":
        return [R.choice([1.0, -1.0]), 0.0, 0.0, 0.0]
    q = [R.gauss(0, 1) for _ in range(4)]
    n = math.sqrt(sum(x * x for x in q))
    s = 1.0 / n
    if kind == "nonunit":
        s *= R.choice([0.5, 2.0, 3.0])
    q = [x * s for x in q]
    if kind == "neg" and q[0] > 0:
        q = [-x for x in q]
    return q


def gen_phase(hostile=None):
    p = {"name": R.choice(NAMES), "sg": None, "pg": None, "color": R.choice(COLORS), "atoms": [],
         "lat": R.choice([[4.05, 4.05, 4.05, 90, 90, 90], [3.2, 3.2, 5.1, 90, 90, 120], [3, 4, 5, 90, 90, 90],
                          [3, 4, 5, 80, 95, 100], [1, 1, 1, 90, 90, 90], [2.5, 3.5, 4.5, 90, 101.5, 90],
                          [round(R.uniform(2, 6), 3), round(R.uniform(2, 6), 3), round(R.uniform(2, 6), 3),
                           round(R.uniform(70, 110), 2), round(R.uniform(70, 110), 2), round(R.uniform(70, 110), 2)]])}
    t = R.random()
    if t < 0.3:
        p["sg"] = R.choice([s for s in range(1, 231) if s not in SG_BAD])
    elif t < 0.6:
        p["pg"] = R.choice(PGS)
    elif t < 0.75:
        p["sg"] = R.choice([s for s in range(1, 231) if s not in SG_BAD])
        p["pg"] = osym.get_point_group(p["sg"]).name
        if p["pg"] not in PGS:
            p["pg"] = None
    for i in range(R.choice([0, 0, 1, 2, 3, 10])):
        p["atoms"].append({"element": R.choice(["Al", "Fe", "Ni", "C", "O", "Fe2+", "Ti"]),
                           "label": R.choice(["", "Al1", "site-%d" % i]),
                           "occ": R.choice([1.0, 0.5, round(R.random(), 3)]),
                           "xyz": [round(R.random(), 4) for _ in range(3)],
                           "U": R.choice([None, None, [[0.01, 0.002, 0.0], [0.002, 0.02, 0.001], [0.0, 0.001, 0.03]]])})
    if hostile == "sg-monoclinic":
        p["sg"], p["pg"] = R.choice(SG_BAD), None
    elif hostile == "pg-2":
        p["sg"], p["pg"] = None, "obj:C2"
    elif hostile == "pg-m":
        p["sg"], p["pg"] = None, "obj:Cs"
    elif hostile == "pg-custom":
        p["sg"], p["pg"] = None, "obj:custom"
    elif hostile == "name-nonascii":
        p["name"] = R.choice(NAMES_NA)
    elif hostile == "atom-nonascii":
        p["atoms"] = [{"element": "Fe", "label": "Fe-α", "occ": 1.0, "xyz": [0, 0, 0], "U": None}]
    elif hostile == "atoms11":
        k = R.choice([11, 12, 15])
        p["atoms"] = [{"element": "C", "label": "L%d" % i, "occ": 1.0, "xyz": [round(i / 20, 3), 0, 0], "U": None}
                      for i in range(k)]
    return p


HOSTILE = ["one-point", "one-point-k", "nx1", "improper", "gimbalpi", "prop-reserved", "prop-str", "prop-path",
           "unit-none", "unit-nonascii", "sg-monoclinic", "pg-2", "pg-m", "pg-custom", "name-nonascii",
           "atom-nonascii", "atoms11", "extra-phase", "ni-modified", "all-masked"]


def gen_spec(k):
    hostile = None
    if R.random() < 0.42:
        hostile = HOSTILE[k % len(HOSTILE)] if R.random() < 0.6 else R.choice(HOSTILE)
    s = {"hostile": hostile, "ext": R.choice(["h5", "hdf5", "H5"])}
    # shape / coordinates
    t = R.random()
    if hostile in ("one-point", "one-point-k"):
        s["shape"], s["steps"], s["coords"] = [1], None, R.choice(["none", "x", "xy"])
    elif t < 0.45:
        s["shape"] = [R.choice([2, 3, 4, 5, 7, 12])]
        s["steps"] = [R.choice([1, 1.5, 0.25, 2])]
        s["coords"] = R.choice(["none", "x", "y", "x"])
    else:
        s["shape"] = [R.choice([1, 2, 3, 4]), R.choice([2, 3, 4, 5])]
        if s["shape"][0] * s["shape"][1] == 1:
            s["shape"] = [2, 2]
        s["steps"] = R.choice([[1, 1], [1.5, 1.5], [0.5, 2], [2, 1], [0.1, 0.1]])
        s["coords"] = "xy"
    n = int(np.prod(s["shape"]))
    # rotations
    s["k"] = 0
    if hostile == "one-point-k":
        s["k"] = 3
    elif hostile == "nx1":
        s["k"] = 1
    elif R.random() < 0.25:
        s["k"] = R.choice([2, 3, 5])
    kinds = ["generic", "generic", "generic", "neg", "nonunit", "gimbal0", "neargimbal", "identity"]
    nrot = n * max(s["k"], 1)
    s["quats"] = [gen_quat(R.choice(kinds)) for _ in range(nrot)]
    if hostile == "gimbalpi":
        for i in R.sample(range(nrot), max(1, nrot // 3)):
            s["quats"][i] = gen_quat("gimbalpi")
    s["improper"] = [False] * nrot
    if hostile == "improper":
        s["improper"] = [R.random() < 0.5 for _ in range(nrot)]
        s["improper"][R.randrange(nrot)] = True
    # phases
    nph = R.choice([1, 1, 2, 3])
    ids = sorted(R.sample([0, 1, 2, 3, 5, 10, 11], nph))
    ph_host = hostile if hostile in ("sg-monoclinic", "pg-2", "pg-m", "pg-custom", "name-nonascii",
                                     "atom-nonascii", "atoms11") else None
    s["phases"] = {}
    used_names = set()
    for j, i in enumerate(ids):
        p = gen_phase(ph_host if j == 0 else None)
        while p["name"] in used_names:
            p["name"] += "'"
        used_names.add(p["name"])
        s["phases"][str(i)] = p
    s["phase_id"] = [R.choice(ids) for _ in range(n)]
    for j, i in enumerate(ids):                       # every listed phase is used
        if n > j:
            s["phase_id"][j] = i
    if len(set(s["phase_id"])) < len(ids):
        keep = sorted(set(s["phase_id"]))
        s["phases"] = {str(i): s["phases"][str(i)] for i in keep}
    if (R.random() < 0.3 and n > len(ids)) or hostile == "ni-modified":
        for i in R.sample(range(n), R.choice([1, 1, 2]) if n > 2 else 1):
            if s["phase_id"].count(s["phase_id"][i]) > 1 or hostile == "ni-modified":
                s["phase_id"][i] = -1
        if hostile == "ni-modified":
            s["phase_id"][n - 1] = -1
        keep = sorted(set(s["phase_id"]) - {-1})
        if keep:
            s["phases"] = {str(i): s["phases"][str(i)] for i in keep}
        else:
            s["phase_id"][0] = ids[0]
            s["phases"] = {str(ids[0]): s["phases"][str(ids[0])]}
    s["extra_phase"] = hostile == "extra-phase"
    s["ni_modified"] = hostile == "ni-modified"
    # mask
    t = R.random()
    if hostile == "all-masked":
        s["mask"] = [False] * n
    elif t < 0.5:
        s["mask"] = None
    else:
        s["mask"] = [R.random() < 0.6 for _ in range(n)]
        s["mask"][R.randrange(n)] = True
    # properties
    s["props"] = []
    names = R.sample(PROPS, R.choice([0, 1, 2, 3]))
    for nm in names:
        dt = R.choice(["float64", "float64", "int64", "bool", "float32", "uint8", "int32"])
        kk = R.choice([0, 0, 0, 2, 1])
        cnt = n * max(kk, 1)
        if dt.startswith("float"):
            vals = [R.choice([round(R.uniform(-100, 100), 3), float(R.randrange(10)), 0.1 * R.randrange(100)]) for _ in range(cnt)]
        elif dt == "bool":
            vals = [R.random() < 0.5 for _ in range(cnt)]
        elif dt == "uint8":
            vals = [R.randrange(256) for _ in range(cnt)]
        else:
            vals = [R.randrange(-1000, 1000) for _ in range(cnt)]
        s["props"].append({"name": nm, "dtype": dt, "k": kk, "vals": vals})
    if hostile == "prop-reserved":
        nm = R.choice([r for r in RESERVED if r != "is_in_data"])   # a property named is_in_data cannot even be constructed
        s["props"].append({"name": nm, "dtype": "float64", "k": 0, "vals": [10.0 + i for i in range(n)]})
    elif hostile == "prop-str":
        s["props"].append({"name": "label", "dtype": "str", "k": 0, "vals": ["g%d" % i for i in range(n)]})
    elif hostile == "prop-path":
        s["props"].append({"name": "a/b", "dtype": "float64", "k": 0, "vals": [10.0 + i for i in range(n)]})
    s["unit"] = R.choice(UNITS)
    if hostile == "unit-none":
        s["unit"] = None
    elif hostile == "unit-nonascii":
        s["unit"] = R.choice(["µm", "Å", "μm", "Å⁻¹"])
    return s


# ------------------------------------------------------------------ building
def build_phase(p):
    atoms = []
    for a in p["atoms"]:
        kw = {}
        if a["U"] is not None:
            kw["U"] = np.array(a["U"], float)
        atoms.append(Atom(a["element"], a["xyz"], label=a["label"], occupancy=a["occ"], **kw))
    pg = p["pg"]
    if pg == "obj:C2":
        pg = osym.C2
    elif pg == "obj:Cs":
        pg = osym.Cs
    elif pg == "obj:custom":
        pg = Symmetry(osym.D3.data.copy())
        pg.name = "my32"
    return Phase(name=p["name"], space_group=p["sg"], point_group=pg,
                 structure=Structure(atoms=atoms, lattice=Lattice(*p["lat"])), color=p["color"])


def build(s):
    n = int(np.prod(s["shape"]))
    q = np.array(s["quats"], float)
    if s["k"]:
        q = q.reshape(n, s["k"], 4)
    rot = Rotation(q)
    if any(s["improper"]):
        rot.improper = np.array(s["improper"]).reshape(rot.shape)
    kw = {}
    if s["coords"] != "none":
        if len(s["shape"]) == 2:
            d, _ = create_coordinate_arrays(tuple(s["shape"]), tuple(s["steps"]))
            kw["x"], kw["y"] = d["x"], d["y"]
        else:
            step = s["steps"][0] if s["steps"] else 1
            arr = np.arange(n) * step
            if "x" in s["coords"]:
                kw["x"] = arr
            if "y" in s["coords"]:
                kw["y"] = arr.copy() if s["coords"] != "xy" else np.zeros(n)
    pl = PhaseList({int(i): build_phase(p) for i, p in s["phases"].items()})
    prop = {}
    for p in s["props"]:
        a = np.array(p["vals"], dtype=None if p["dtype"] == "str" else p["dtype"])
        if p["k"]:
            a = a.reshape(n, p["k"])
        prop[p["name"]] = a
    kw2 = {} if s["unit"] == "default" else {"scan_unit": s["unit"]}
    xmap = CrystalMap(rot, phase_id=np.array(s["phase_id"]), phase_list=pl, prop=prop,
                      is_in_data=None if s["mask"] is None else np.array(s["mask"], bool), **kw, **kw2)
    if s["extra_phase"]:
        xmap.phases.add(Phase("unused", point_group="m-3m", color="xkcd:puke"))
    if s["ni_modified"] and -1 in xmap.phases.ids:
        xmap.phases[-1].color = "k"
        xmap.phases[-1].name = "unindexed"
    return xmap


# ------------------------------------------------------------------ observing
def arr_rec(a):
    a = np.asarray(a)
    kind = a.dtype.kind
    flat = a.reshape(-1)
    if kind == "f":
        data = [float(x) for x in flat]
        cls = "F"
    elif kind in "iu":
        data = [int(x) for x in flat]
        cls = "I"
    elif kind == "b":
        data = [bool(x) for x in flat]
        cls = "B"
    else:
        return {"dt": str(a.dtype), "sh": list(a.shape), "cls": "X", "d": [str(x) for x in flat]}
    return {"dt": str(a.dtype), "sh": list(a.shape), "cls": cls, "d": data}


def phase_rec(p):
    st_ = p.structure
    return {"name": p.name, "sg": None if p.space_group is None else int(p.space_group.number),
            "pg": None if p.point_group is None else p.point_group.name, "color": p.color,
            "abcABG": arr_rec(np.array(st_.lattice.abcABG())), "baserot": arr_rec(st_.lattice.baserot),
            "base": np.asarray(st_.lattice.base).reshape(-1).tolist(),
            "atoms": [{"element": a.element, "label": a.label, "occ": float(a.occupancy), "xyz": arr_rec(a.xyz),
                       "U": arr_rec(a.U)} for a in st_]}


def map_rec(x):
    rot = x._rotations
    return {"rsh": list(rot.shape), "q": rot.data.reshape(-1, 4).tolist(),
            "imp": [bool(b) for b in rot.improper.reshape(-1)],
            "pid": [int(i) for i in x._phase_id],
            "x": None if x._x is None else arr_rec(x._x), "y": None if x._y is None else arr_rec(x._y),
            "ind": [bool(b) for b in x.is_in_data],
            "props": {k: arr_rec(v) for k, v in dict.items(x._prop)},
            "unit": x.scan_unit,
            "phases": {str(int(i)): phase_rec(p) for i, p in x.phases},
            "shape": list(x.shape) if np.any(x.is_in_data) else None}


def dump_h5(g):
    out = {}
    for k in g.keys():
        v = g[k]
        if isinstance(v, h5py.Group):
            out[k] = {"g": dump_h5(v)}
        else:
            val = v[()]
            if v.dtype.kind == "S":
                out[k] = {"s": [list(bytes(b)) for b in np.asarray(val).reshape(-1)], "w": int(v.dtype.itemsize),
                          "sh": list(v.shape)}
            else:
                out[k] = {"a": arr_rec(val)}
    return out


# ------------------------------------------------------------------ oracle
def is_ascii(s):
    return all(0 < ord(c) < 128 for c in s)


def euler_class(q):
    q = np.asarray(q, float)
    q = q / np.linalg.norm(q)
    q_ad, q_bc = q[0] ** 2 + q[3] ** 2, q[1] ** 2 + q[2] ** 2
    if math.sqrt(q_ad * q_bc) >= 1e-9:
        return "generic"
    return "gimbal0" if q_bc < 1e-9 else "gimbalpi"


ROT_TOL = 1e-9


def misorientation_angle(a, b):
    """angle (rad) of the rotation a * conj(b) of two unit quaternions, accurate for small angles"""
    a0, a1, a2, a3 = a
    b0, b1, b2, b3 = b
    w = a0 * b0 + a1 * b1 + a2 * b2 + a3 * b3
    v = (-a0 * b1 + a1 * b0 - a2 * b3 + a3 * b2, -a0 * b2 + a2 * b0 - a3 * b1 + a1 * b3,
         -a0 * b3 + a3 * b0 - a1 * b2 + a2 * b1)
    return 2 * math.atan2(math.sqrt(v[0] ** 2 + v[1] ** 2 + v[2] ** 2), abs(w))


def arr_same(a, b):
    return a["dt"] == b["dt"] and a["sh"] == b["sh"] and a["cls"] == b["cls"] and (
        np.allclose(a["d"], b["d"], rtol=0, atol=0, equal_nan=True) if a["cls"] == "F" else a["d"] == b["d"])


def compare(m0, m1, pre, rep):
    """original record m0 vs loaded record m1 -> failures with signatures"""
    n = len(m0["pid"])
    if m0["shape"] != m1["shape"]:
        cause = ":prop-reserved" if ("x" in m0["props"] or "y" in m0["props"]) else ""
        fail(pre + "shape" + cause, f"map shape {m0['shape']} became {m1['shape']}", rep)
    if m0["ind"] != m1["ind"]:
        fail(pre + "is_in_data", "is_in_data differs after the round trip", rep)
    for c in "xy":
        a, b = m0[c], m1[c]
        if n == 1 and a is None and b is not None and [float(v) for v in b["d"]] == [0.0]:
            # a one-point map: an absent coordinate is stored as 0 and read back as the array [0]; the public
            # x / y / dx / dy / shape / row / col are the same for both (None for a constant coordinate array)
            continue
        if (a is None) != (b is None) or (a is not None and not arr_same(a, b)):
            cause = "prop-reserved" if c in m0["props"] else "other"
            fail(pre + f"coord:{cause}", f"{c} coordinates differ after the round trip", rep)
    if m0["pid"] != m1["pid"]:
        cause = "prop-reserved" if "phase_id" in m0["props"] else "other"
        fail(pre + f"phase_id:{cause}", "phase ids differ after the round trip", rep)
    # rotations as rotations
    if m0["rsh"] != m1["rsh"]:
        cause = "n-by-1-squeezed" if len(m0["rsh"]) == 2 and m0["rsh"][1] == 1 and m1["rsh"] == m0["rsh"][:1] else "other"
        fail(pre + f"rotshape:{cause}", f"rotations shape {m0['rsh']} became {m1['rsh']}", rep)
    if len(m0["q"]) == len(m1["q"]):
        seen = set()
        for i, (a, b) in enumerate(zip(m0["q"], m1["q"])):
            a = np.array(a, float) / np.linalg.norm(a)
            b = np.array(b, float) / np.linalg.norm(b)
            if abs(abs(float(a @ b)) - 1) > 1e-7:
                cause = "eu:" + euler_class(a)
                if any(k in m0["props"] for k in ("phi1", "Phi", "phi2")):
                    cause = "prop-reserved"
                if cause not in seen:
                    seen.add(cause)
                    fail(pre + f"rot:{cause}", f"rotation {i} ({a.tolist()}) is another rotation after the round trip "
                         f"({b.tolist()})", rep)
            elif misorientation_angle(a, b) > ROT_TOL:
                # the dot-product test above only sees angles > ~1e-3 rad; binary64 Euler angles reproduce the
                # rotation to ~2e-15 rad (measured on 2e5 rotations, Phi down to 1e-8 from 0 and pi)
                cause = "eu:gimbalpi" if euler_class(a) == "gimbalpi" else "precision"
                if any(k in m0["props"] for k in ("phi1", "Phi", "phi2")):
                    cause = "prop-reserved"
                if cause not in seen:
                    seen.add(cause)
                    fail(pre + f"rot:{cause}", f"rotation {i} ({a.tolist()}) comes back rotated by "
                         f"{misorientation_angle(a, b):.3e} rad ({b.tolist()}); stored binary64 Euler angles give "
                         f"< 1e-14 rad", rep)
            if m0["imp"][i] != m1["imp"][i] and "imp" not in seen:
                seen.add("imp")
                cause = "prop-reserved" if "improper" in m0["props"] else "improper-lost"
                fail(pre + f"rot:{cause}", f"improper flag of rotation {i} is {m0['imp'][i]} before and "
                     f"{m1['imp'][i]} after the round trip", rep)
    # properties
    for k in sorted(set(m0["props"]) | set(m1["props"])):
        a, b = m0["props"].get(k), m1["props"].get(k)
        if a is None or b is None or not arr_same(a, b):
            cause = "reserved-name:" + k if k in RESERVED else ("name-path" if "/" in k or "/" in "".join(m0["props"]) else "other")
            fail(pre + f"prop:{cause}", f"property {k!r} {'is missing' if b is None else 'appeared' if a is None else 'differs'} "
                 "after the round trip", rep)
    if m0["unit"] != m1["unit"]:
        cause = "non-ascii" if m0["unit"] is not None and not is_ascii(m0["unit"]) else "other"
        fail(pre + f"str:{cause}:scan_unit", f"scan unit {m0['unit']!r} became {m1['unit']!r}", rep)
    # phases
    ids0, ids1 = sorted(m0["phases"], key=int), sorted(m1["phases"], key=int)
    if ids0 != ids1:
        used = set(str(i) for i in m0["pid"])
        cause = ("prop-reserved" if "phase_id" in m0["props"] else
                 "unused-dropped" if set(ids1) == set(ids0) & used and set(ids1) < set(ids0) else "other")
        fail(pre + f"phases:{cause}", f"phase ids {ids0} became {ids1}", rep)
    for i in ids0:
        if i not in m1["phases"]:
            continue
        p, r = m0["phases"][i], m1["phases"][i]
        if "phase_id" in m0["props"] and jrec(p) != jrec(r):
            # the property's values replaced the phase ids, so the constructor re-keyed the phase list: an id kept by
            # chance now names another phase (seed 0, n = 2400: ids {0, 1, 10} became {10, 11, 12})
            fail(pre + "phases:prop-reserved", f"phase {i} is another phase after the round trip: the property named "
                 f"phase_id replaced the phase ids", rep)
            continue
        if i == "-1" and any(p[f] != r[f] for f in ("name", "color")):
            fail(pre + "phases:not-indexed-reset", f"the not-indexed phase {p['name']!r}/{p['color']} was reset to "
                 f"{r['name']!r}/{r['color']}", rep)
            continue
        if p["name"] != r["name"]:
            cause = "non-ascii" if not is_ascii(p["name"]) else "other"
            fail(pre + f"str:{cause}:phase-name", f"phase name {p['name']!r} became {r['name']!r}", rep)
        if p["sg"] != r["sg"] or p["pg"] != r["pg"]:
            cause = f"sg={p['sg']}" if p["sg"] is not None else f"pg={p['pg']}"
            fail(pre + f"sym:{cause}:changed", f"phase {i}: space group {p['sg']} / point group {p['pg']} became "
                 f"{r['sg']} / {r['pg']}", rep)
        if p["color"] != r["color"]:
            fail(pre + "color", f"phase colour {p['color']!r} became {r['color']!r}", rep)
        if not (np.allclose(p["abcABG"]["d"], r["abcABG"]["d"], atol=1e-9, rtol=0)
                and np.allclose(p["base"], r["base"], atol=1e-9, rtol=0)):
            fail(pre + "lattice", f"lattice of phase {i} differs after the round trip", rep)
        a0, a1 = p["atoms"], r["atoms"]
        if len(a0) != len(a1):
            fail(pre + "atoms:count", f"phase {i}: {len(a0)} atoms became {len(a1)}", rep)
            continue

        def same_atom(a, b):
            return (a["element"] == b["element"] and a["label"] == b["label"] and abs(a["occ"] - b["occ"]) < 1e-12
                    and np.allclose(a["xyz"]["d"], b["xyz"]["d"], atol=1e-9, rtol=0)
                    and np.allclose(a["U"]["d"], b["U"]["d"], atol=1e-12, rtol=0))
        if not all(same_atom(a, b) for a, b in zip(a0, a1)):
            texts = [a["element"] + a["label"] for a in a0]
            if not all(is_ascii(t) for t in texts):
                cause = "str:non-ascii:atom"
            elif len(a0) >= 11 and all(any(same_atom(a, b) for b in a1) for a in a0):
                cause = "atoms:order:ge11"
            else:
                cause = "atoms:other"
            fail(pre + cause, f"atoms of phase {i} differ (or are permuted) after the round trip", rep)


def classify_load_error(m0, e):
    n = len(m0["pid"])
    name = type(e).__name__
    if n == 1:
        return "load:one-point"
    if m0["unit"] is None:
        return "load:scan-unit-none"
    if any(k in RESERVED for k in m0["props"]):
        return "load:prop:reserved-name:" + [k for k in m0["props"] if k in RESERVED][0]
    if any("/" in k for k in m0["props"]):
        return "load:prop:name-path"
    if isinstance(e, ValueError) and "valid point" in str(e):
        for i, p in m0["phases"].items():
            if p["pg"] is not None and p["pg"] not in PGS and p["pg"] not in ("2", "20", "22", "42", "43", "m3m"):
                if p["sg"] is not None:
                    return "load:sym:sg=%d:raises" % p["sg"]
                return "load:sym:pg=m:raises" if p["pg"] == "m" else "load:sym:pg-unlisted:raises"
    return f"load:exception:{name}"


def classify_save_error(x, e):
    if not np.any(x.is_in_data) and isinstance(e, ZeroDivisionError):
        return "save:all-masked"
    if any(np.asarray(v).dtype.kind in "USO" for v in dict.values(x._prop)):
        return "save:prop-dtype-str"
    if any(k == "" or "/" in k for k in dict.keys(x._prop)):
        return "save:prop:name-path"
    return f"save:exception:{type(e).__name__}"


def run_case(s, k):
    rep = {"spec": s}
    st("hostile:" + str(s["hostile"]))
    st("dim%d" % len(s["shape"]))
    st("k=%d" % s["k"])
    st("mask:" + ("none" if s["mask"] is None else "partial" if any(s["mask"]) else "empty"))
    st("phases=%d" % len(s["phases"]) + ("+ni" if -1 in s["phase_id"] else ""))
    st("props=%d" % len(s["props"]))
    x = build(s)
    m0 = map_rec(x)
    case = {"id": k, "hostile": s["hostile"], "m": m0, "version": ORIX_VERSION, "file": None, "loaded": None,
            "save_exc": None, "load_exc": None, "corr": True}
    # the model has no string arrays and HDF5 path semantics of "/" in names
    if any(v["cls"] == "X" for v in m0["props"].values()) or any(k2 == "" or "/" in k2 for k2 in m0["props"]):
        case["corr"] = False
    # a float property overriding the phase_id dataset is cast by astype(int), one overriding the improper dataset is
    # broadcast and cast to bool: these casts are not modelled
    if "phase_id" in m0["props"] or "improper" in m0["props"]:
        case["corr"] = False
    fn = os.path.join(TMP, f"c13_{os.getpid()}_{k}.{s['ext']}")
    try:
        # ---- save
        try:
            io.save(fn, x, overwrite=True)
        except Exception as e:  # noqa
            case["save_exc"] = type(e).__name__
            fail(classify_save_error(x, e), f"saving raises {type(e).__name__}: {str(e)[:120]}", rep)
            return case
        m0b = map_rec(x)
        if m0b != m0:
            diff = [f for f in m0 if m0[f] != m0b[f]]
            fail("save:mutates:" + ",".join(diff), "saving modified the map in memory", rep)
        with h5py.File(fn, "r") as f:
            case["file"] = dump_h5(f)
        # ---- load
        try:
            y = io.load(fn)
        except Exception as e:  # noqa
            case["load_exc"] = type(e).__name__
            tb = traceback.extract_tb(e.__traceback__)[-1]
            fail(classify_load_error(m0, e), f"loading the saved map raises {type(e).__name__}: {str(e)[:120]} "
                 f"({os.path.basename(tb.filename)}:{tb.lineno})", rep)
            return case
        m1 = map_rec(y)
        case["loaded"] = m1
        compare(m0, m1, "", rep)
        # ---- second cycle
        try:
            io.save(fn, y, overwrite=True)
            z = io.load(fn)
            compare(m1, map_rec(z), "cycle2:", rep)
        except Exception as e:  # noqa
            fail("cycle2:" + classify_load_error(m1, e), f"second save/load cycle raises {type(e).__name__}: {str(e)[:120]}", rep)
        return case
    finally:
        if os.path.exists(fn):
            os.remove(fn)


def tables():
    import warnings
    warnings.filterwarnings("ignore")
    return {"sg2pg": [osym.get_point_group(i).name for i in range(1, 231)],
            "aliases": [[k, list(v)] for k, v in osym.point_group_aliases.items()],
            "groups": [g.name for g in osym._groups]}


def canon_colors(names):
    out = {}
    for c in names:
        out[c] = Phase(color=c).color
    return out


# ------------------------------------------------------------------ extra oracle strata
# Oracle only (no correspondence case): entry points / keyword paths / input classes / histories that gen_spec does
# not reach.  Every stratum calls the real orix.io.save / orix.io.load, compares with compare() (signatures prefixed
# with the stratum) and with a bit-exact numpy comparison where compare() is too coarse.  None of the inputs lies in
# the stratum of a known finding (>= 2 points, some point in data, no Phi = pi, no reserved names, every listed
# phase used, listed point groups only).
import itertools  # noqa: E402
import json  # noqa: E402
from pathlib import Path  # noqa: E402


def jrec(m):
    return json.dumps(m, sort_keys=True, default=str)


def clean_spec(k, dims=None):
    while True:
        s = gen_spec(k)
        if s["hostile"] is None and (dims is None or len(s["shape"]) == dims):
            return s


def plain_quats(n, kinds=("generic", "generic", "neg", "nonunit", "gimbal0", "neargimbal", "identity")):
    return np.array([gen_quat(kinds[i % len(kinds)]) for i in range(n)], float)


def partial_mask(n, i):
    """deterministic in-data masks with at least one point in and (n >= 2) one point out"""
    m = np.array([(j * 7 + i) % 3 != 0 for j in range(n)])
    m[i % n] = True
    m[(i + 1) % n] = False
    return m


def cycle(x, pre, rep, second=True, tag="extra"):
    """io.save / io.load through the primary entry point + compare(); -> (record before, loaded map, its record)"""
    fn = os.path.join(TMP, f"c13_{os.getpid()}_{tag}.h5")
    m0 = map_rec(x)
    k0 = len(fails)
    try:
        try:
            io.save(fn, x, overwrite=True)
        except Exception as e:  # noqa
            fail(pre + "save:exception:" + type(e).__name__, f"saving raises {type(e).__name__}: {str(e)[:160]}", rep)
            return None
        if jrec(map_rec(x)) != jrec(m0):
            fail(pre + "save:mutates", "saving modified the map in memory", rep)
        try:
            y = io.load(fn)
        except Exception as e:  # noqa
            tb = traceback.extract_tb(e.__traceback__)[-1]
            fail(pre + "load:exception:" + type(e).__name__, f"loading the saved map raises {type(e).__name__}: "
                 f"{str(e)[:160]} ({os.path.basename(tb.filename)}:{tb.lineno})", rep)
            return None
        m1 = map_rec(y)
        compare(m0, m1, pre, rep)
        if second:
            try:
                io.save(fn, y, overwrite=True)
                compare(m1, map_rec(io.load(fn)), pre + "cycle2:", rep)
            except Exception as e:  # noqa
                fail(pre + "cycle2:exception:" + type(e).__name__, f"second save/load cycle raises "
                     f"{type(e).__name__}: {str(e)[:160]}", rep)
        return m0, y, m1
    finally:
        seen, keep = set(), []
        for f in fails[k0:]:                      # one report per signature and map
            if f["sig"] not in seen:
                seen.add(f["sig"])
                keep.append(f)
        fails[k0:] = keep
        if os.path.exists(fn):
            os.remove(fn)


def bits_same(a, b):
    """same kind, item size, shape and the same bits (NaN payloads, signed zeros; byte order normalised)"""
    a, b = np.asarray(a), np.asarray(b)
    if a.dtype.kind != b.dtype.kind or a.dtype.itemsize != b.dtype.itemsize or a.shape != b.shape:
        return False
    na = np.ascontiguousarray(a).astype(a.dtype.newbyteorder("="))
    nb = np.ascontiguousarray(b).astype(b.dtype.newbyteorder("="))
    return na.tobytes() == nb.tobytes()


# ---- 1. entry points and keyword paths -------------------------------------------------------------------------
def big_map():
    d, _ = create_coordinate_arrays((30, 40), (0.5, 0.5))
    n = 1200
    pid = np.array([(1 if (j // 7) % 3 else 4) for j in range(n)])
    pl = PhaseList({1: Phase("austenite", space_group=225, color="tab:blue"),
                    4: Phase("ferrite", point_group="m-3m", color="tab:orange")})
    q = plain_quats(2 * n).reshape(n, 2, 4)
    return CrystalMap(Rotation(q), phase_id=pid, x=d["x"], y=d["y"], phase_list=pl, scan_unit="um",
                      prop={"iq": np.arange(n) * 0.37, "grain": np.arange(n) // 50,
                            "scores": np.arange(2 * n, dtype="float32").reshape(n, 2)}, is_in_data=partial_mask(n, 5))


def stratum_entry():
    from orix.io.plugins import orix_hdf5
    os.makedirs(os.path.join(TMP, "d.ir"), exist_ok=True)
    base = f"c13_{os.getpid()}_entry"
    namers = [("name-str-h5", lambda: os.path.join(TMP, base + ".h5")),
              ("name-path-hdf5", lambda: Path(TMP) / (base + ".hdf5")),
              ("name-dotted", lambda: os.path.join(TMP, base + ".v1.2.h5")),
              ("name-upper-HDF5", lambda: os.path.join(TMP, base + ".HDF5")),
              ("name-path-dotdir", lambda: Path(TMP) / "d.ir" / (base + ".h5"))]
    savers = [("save-overwrite-true", lambda fn, x, kw: io.save(fn, x, overwrite=True, **kw)),
              ("save-overwrite-false", lambda fn, x, kw: io.save(fn, x, overwrite=False, **kw)),
              ("save-overwrite-default", lambda fn, x, kw: io.save(fn, x, **kw)),
              ("plugin-file_writer", lambda fn, x, kw: orix_hdf5.file_writer(fn, x, **kw))]
    skws = [("nokw", {}), ("gzip", {"compression": "gzip", "compression_opts": 4}),
            ("chunks-shuffle-fletcher32", {"chunks": True, "shuffle": True, "fletcher32": True}),
            ("track_times-off", {"track_times": False})]
    loaders = [("load", lambda fn: io.load(fn)), ("load-mode-r+", lambda fn: io.load(fn, mode="r+")),
               ("load-driver-core", lambda fn: io.load(fn, driver="core", backing_store=False)),
               ("plugin-file_reader", lambda fn: orix_hdf5.file_reader(fn))]
    maps = []
    for j in range(4):
        s = clean_spec(j, dims=1 + j % 2)
        x = build(s)
        r = cycle(x, "entry:primary:", {"stratum": "entry", "map_spec": s}, tag="entryp")
        if r is not None:
            maps.append(({"map_spec": s}, x, jrec(r[2])))
    x = big_map()
    r = cycle(x, "entry:big:", {"stratum": "entry", "map": "big_map() of tools/impl/c13.py: 30x40 grid, 2 rotations "
                                "per point, 2 phases, 3 properties, partial mask"}, tag="entryp")
    if r is not None:
        maps.append(({"map": "big_map()"}, x, jrec(r[2])))
    if not maps:
        return
    combos = [c for c in itertools.product(range(4), range(4), range(4), range(5))
              if sum(1 for v in c if v) <= 2]
    combos += [(1 + i % 3, 1 + (i // 3) % 3, 1 + (i // 9) % 3, 1 + i % 4) for i in range(12)]
    combos.sort(key=lambda c: sum(1 for v in c if v))
    failed_labels = set()
    for i, (a, b, c, d) in enumerate(combos):
        labels = [savers[a][0], skws[b][0], loaders[c][0], namers[d][0]]
        nondef = [lab for lab, v in zip(labels, (a, b, c, d)) if v]
        if any(lab in failed_labels for lab in nondef):
            continue
        desc, x, ref = maps[i % len(maps)]
        fn = namers[d][1]()
        rep = dict(desc, stratum="entry", save=labels[0], save_kwargs=skws[b][1], load=labels[2], filename=str(fn),
                   filename_type=type(fn).__name__)
        sig = "entry:" + ("+".join(nondef) if nondef else "default")
        st("entry:" + "+".join(nondef[:1] or ["default"]))
        try:
            if os.path.exists(fn):
                os.remove(fn)
            savers[a][1](fn, x, dict(skws[b][1]))
            if not os.path.isfile(fn):
                fail(sig + ":no-file", f"{labels[0]}({fn!r}) wrote no file", rep)
                failed_labels.update(nondef)
                continue
            y = loaders[c][1](fn)
            if jrec(map_rec(y)) != ref:
                m1, mr = map_rec(y), json.loads(ref)
                diff = [f for f in m1 if jrec(m1[f]) != jrec(mr[f])]
                fail(sig, f"the map loaded through {'/'.join(labels)} differs from the one loaded through the plain "
                     f"io.save(str, overwrite=True)/io.load(str) in the fields {diff}", rep)
                failed_labels.update(nondef)
        except Exception as e:  # noqa
            fail(sig + ":raises:" + type(e).__name__, f"{'/'.join(labels)} raises {type(e).__name__}: "
                 f"{str(e)[:160]}", rep)
            failed_labels.update(nondef)
        finally:
            if os.path.exists(fn):
                os.remove(fn)
    # a file that already holds ANOTHER map is replaced, not merged
    fn = os.path.join(TMP, base + "_ow.h5")
    try:
        for i in range(len(maps)):
            (da, xa, _), (db, xb, refb) = maps[i], maps[(i + 1) % len(maps)]
            st("entry:overwrite-other")
            rep = {"stratum": "entry", "first": da, "then": db}
            try:
                io.save(fn, xa, overwrite=True)
                io.save(fn, xb, overwrite=True)
                if jrec(map_rec(io.load(fn))) != refb:
                    fail("entry:overwrite-other", "saving a map over a file holding another map and loading it does "
                         "not give the second map", rep)
            except Exception as e:  # noqa
                fail("entry:overwrite-other:raises:" + type(e).__name__, f"saving over a file holding another map "
                     f"raises {type(e).__name__}: {str(e)[:160]}", rep)
    finally:
        if os.path.exists(fn):
            os.remove(fn)


# ---- 2. property dtypes, special values, memory layouts ---------------------------------------------------------
XDTYPES = ["float16", "float32", "float64", "complex64", "complex128", "int8", "int16", "int32", "int64", "uint8",
           "uint16", "uint32", "uint64", "bool", ">f8", ">f4", ">i4", ">u2", ">c16"]
XLAYOUTS = ["plain", "strided-view", "reversed-view", "fortran-n-by-3", "three-axes", "n-by-1-by-2", "readonly"]


def special_values(dt, cnt):
    dt = np.dtype(dt)
    if dt.kind == "f":
        fi = np.finfo(dt)
        sp = [float("nan"), float("inf"), float("-inf"), -0.0, 0.0, float(fi.tiny) / 4, float(fi.max), float(-fi.max),
              float(fi.eps), 1.0 / 3]
        vals = [sp[j] if j < len(sp) else R.uniform(-1e3, 1e3) for j in range(cnt)]
    elif dt.kind == "c":
        sp = [complex(float("nan"), 1.0), complex(-0.0, -0.0), complex(float("inf"), float("-inf")), 1j, -1.5 + 2.25j]
        vals = [sp[j] if j < len(sp) else complex(R.uniform(-9, 9), R.uniform(-9, 9)) for j in range(cnt)]
    elif dt.kind == "b":
        vals = [(j * 5) % 3 == 0 for j in range(cnt)]
    else:
        ii = np.iinfo(dt)
        sp = [ii.max, ii.min, 0, 1, ii.max - 1, ii.min + 1, ii.max // 2 + 1]
        vals = [sp[j] if j < len(sp) else R.randrange(ii.min, ii.max + 1) for j in range(cnt)]
    with np.errstate(all="ignore"):
        return np.array(vals).astype(dt)


def laid_out(dt, layout, n):
    """-> property array of first axis n in the given memory layout"""
    if layout == "plain":
        return special_values(dt, n)
    if layout == "strided-view":
        return special_values(dt, 3 * n).reshape(n, 3)[:, 1]
    if layout == "reversed-view":
        return special_values(dt, n)[::-1]
    if layout == "fortran-n-by-3":
        return np.asfortranarray(special_values(dt, 3 * n).reshape(n, 3))
    if layout == "three-axes":
        return special_values(dt, 6 * n).reshape(n, 2, 3)
    if layout == "n-by-1-by-2":
        return special_values(dt, 2 * n).reshape(n, 1, 2)
    a = special_values(dt, n)
    a.setflags(write=False)
    return a


def stratum_prop_dtype():
    for i in range(len(XLAYOUTS)):
        n = [2, 3, 5, 8, 4, 6, 12][i % 7]
        lay = {dt: XLAYOUTS[(i + j) % len(XLAYOUTS)] for j, dt in enumerate(XDTYPES)}
        props = {"p_" + dt.replace(">", "be_"): laid_out(dt, lay[dt], n) for dt in XDTYPES}
        mask = None if i % 2 == 0 else partial_mask(n, i)
        k = [0, 2, 0, 1][i % 4]
        q = plain_quats(n * max(k, 1))
        x = CrystalMap(Rotation(q.reshape(n, k, 4) if k else q), prop=props, is_in_data=mask,
                       phase_id=np.array([j % 2 for j in range(n)]))
        rep = {"stratum": "propdtype", "n": n, "rotations_per_point": k, "mask": None if mask is None else mask.tolist(),
               "layouts": lay, "values": {kk: arr_rec(v)["d"] for kk, v in props.items()}}
        orig = {kk: np.array(v, copy=True) for kk, v in props.items()}
        r = cycle(x, "propdtype:", rep, second=False, tag="pdt")
        for dt in XDTYPES:                        # every dtype meets every layout once over the len(XLAYOUTS) maps
            st("propdtype:" + dt)
            st("proplayout:" + lay[dt])
        if r is None:
            continue
        y = r[1]
        for dt in XDTYPES:
            kk = "p_" + dt.replace(">", "be_")
            if kk not in dict.keys(y._prop):
                fail(f"propdtype:{dt}:{lay[dt]}:missing", f"property of dtype {dt} ({lay[dt]}) is missing", rep)
                continue
            b = dict.__getitem__(y._prop, kk)
            if not bits_same(orig[kk], b):
                fail(f"propdtype:{dt}:{lay[dt]}", f"property of dtype {dt}, layout {lay[dt]}, shape {orig[kk].shape} "
                     f"comes back as dtype {np.asarray(b).dtype}, shape {np.shape(b)} or with other bits "
                     f"(NaN / inf / signed zero / extreme values included)", rep)
            if not bits_same(orig[kk], dict.__getitem__(x._prop, kk)):
                fail(f"propdtype:{dt}:{lay[dt]}:save-mutates", f"saving changed the property of dtype {dt} in memory", rep)


# ---- 3. coordinate arrays ---------------------------------------------------------------------------------------
def stratum_coords():
    def grid(r, c, fx, fy):
        rows, cols = np.indices((r, c))
        return fx(cols.ravel()), fy(rows.ravel())
    variants = [
        ("x-offset", lambda n: (10 + np.arange(n) * 0.5, None)),
        ("x-negative", lambda n: (-3 + np.arange(n) * 1.0, None)),
        ("y-only-offset", lambda n: (None, 7.5 + np.arange(n) * 0.25)),
        ("x-float32", lambda n: (np.arange(n, dtype="float32") * 0.5, None)),
        ("x-int32", lambda n: (np.arange(n, dtype="int32") * 2, None)),
        ("x-uint8", lambda n: (np.arange(n, dtype="uint8"), None)),
        ("column-x-zero", lambda n: (np.zeros(n), np.arange(n) * 1.0)),
        ("row-y-constant-nonzero", lambda n: (np.arange(n) * 1.0, np.full(n, 2.5))),
        ("x-strided-view", lambda n: (np.arange(2 * n)[::2] * 1.0, None)),
        ("x-descending", lambda n: (np.arange(n)[::-1] * 1.5, None)),
        ("x-scattered", lambda n: (np.array([0.3, 2.2, 0.9, 5.5, 4.1, 3.3, 7.0, 6.2])[:n], None)),
        ("grid-offset", lambda n: grid(n // 2, 2, lambda c: 5 + c * 0.5, lambda r: -2 + r * 1.5)),
        ("grid-int", lambda n: grid(2, n // 2, lambda c: c * 3, lambda r: r * 2)),
        ("grid-column-major", lambda n: grid(n // 2, 2, lambda c: c * 1.0, lambda r: r * 1.0)[::-1]),
        ("grid-n-by-1", lambda n: grid(n, 1, lambda c: c * 1.0, lambda r: r * 0.5)),
        ("grid-float32-xy", lambda n: grid(2, n // 2, lambda c: (c * 0.25).astype("float32"),
                                           lambda r: (r * 0.25).astype("float32"))),
    ]
    for i, (name, f) in enumerate(variants):
        for mm in range(2):
            n = [4, 6, 8][(i + mm) % 3]
            xx, yy = f(n)
            mask = None if mm == 0 else partial_mask(n, i)
            k = [0, 2][(i // 2 + mm) % 2]
            q = plain_quats(n * max(k, 1))
            x = CrystalMap(Rotation(q.reshape(n, k, 4) if k else q), x=xx, y=yy, is_in_data=mask,
                           prop={"iq": np.arange(n) * 1.0})
            pre = f"coords:{name}:"
            rep = {"stratum": "coords", "variant": name, "x": None if xx is None else arr_rec(xx),
                   "y": None if yy is None else arr_rec(yy), "mask": None if mask is None else mask.tolist(),
                   "rotations_per_point": k}
            st(pre + ("masked" if mm else "full"))
            before = (x.shape, x.dx, x.dy)
            r = cycle(x, pre, rep, second=(mm == 1), tag="coo")
            if r is None:
                continue
            y = r[1]
            for cname, a0, a1 in (("x", x._x, y._x), ("y", x._y, y._y)):
                if (a0 is None) != (a1 is None) or (a0 is not None and (not bits_same(a0, a1) or a0.dtype != a1.dtype)):
                    fail(pre + cname, f"{cname} coordinates {None if a0 is None else (str(a0.dtype), a0.tolist())} come "
                         f"back as {None if a1 is None else (str(a1.dtype), np.asarray(a1).tolist())}", rep)
            after = (y.shape, y.dx, y.dy)
            if before != after:
                fail(pre + "shape-steps", f"(shape, dx, dy) {before} became {after}", rep)


# ---- 4. every space group and every listed point group, many phases in one map -----------------------------------
def stratum_sym_all():
    def many(name, phases, ids):
        pl = PhaseList(dict(zip(ids, phases)))
        n = len(ids)
        x = CrystalMap(Rotation(plain_quats(n)), phase_id=np.array(ids), phase_list=pl,
                       is_in_data=partial_mask(n, 3))
        st("symall:" + name)
        cycle(x, "symall:", {"stratum": "symall", "variant": name, "ids": list(ids),
                             "phases": [[p.name, None if p.space_group is None else p.space_group.number,
                                         None if p.point_group is None else p.point_group.name] for p in phases]},
              second=False, tag="sym")
    sgs = list(range(1, 231))
    many("space-groups-1-230", [Phase(name="sg%d" % i, space_group=i, color=COLORS[i % len(COLORS)]) for i in sgs],
         [3 * i + 2 for i in sgs])
    gs = list(osym._groups)
    many("point-groups-by-object", [Phase(name="pg " + g.name, point_group=g) for g in gs],
         [len(gs) - j for j in range(len(gs))])
    many("point-groups-by-name", [Phase(name=g.name, point_group=g.name) for g in gs], list(range(len(gs))))
    both = [i for i in sgs if osym.get_point_group(i).name in PGS]
    many("space-group-and-own-point-group",
         [Phase(name="b%d" % i, space_group=i, point_group=osym.get_point_group(i).name) for i in both[::3]],
         list(range(10, 10 + len(both[::3]))))


# ---- 5. not-indexed points only / phases and not-indexed points only outside the data ---------------------------
def stratum_not_indexed():
    pl2 = lambda: PhaseList({2: Phase("a", point_group="m-3m"), 7: Phase("b", space_group=194)})  # noqa
    d, _ = create_coordinate_arrays((2, 3), (1.5, 1.5))

    def v_all_1d():
        return CrystalMap(Rotation(plain_quats(4)), phase_id=-np.ones(4))

    def v_all_2d_masked():
        return CrystalMap(Rotation(plain_quats(6)), phase_id=-np.ones(6), x=d["x"], y=d["y"],
                          is_in_data=np.array([1, 1, 0, 1, 1, 0], bool), prop={"iq": np.arange(6.0)})

    def v_all_with_phase_list():
        return CrystalMap(Rotation(plain_quats(5)), phase_id=-np.ones(5), phase_list=pl2())

    def v_all_k2():
        return CrystalMap(Rotation(plain_quats(6).reshape(3, 2, 4)), phase_id=np.full(3, -1))

    def v_ni_only_masked_out():
        return CrystalMap(Rotation(plain_quats(6)), phase_id=np.array([2, -1, 7, 2, -1, 7]), phase_list=pl2(),
                          is_in_data=np.array([1, 0, 1, 1, 0, 1], bool))

    def v_phase_only_masked_out():
        return CrystalMap(Rotation(plain_quats(6)), phase_id=np.array([2, 7, 2, 2, 7, -1]), phase_list=pl2(),
                          is_in_data=np.array([1, 0, 1, 1, 0, 1], bool))

    def v_only_ni_in_data():
        return CrystalMap(Rotation(plain_quats(6)), phase_id=np.array([2, -1, 7, 2, -1, 7]), phase_list=pl2(),
                          is_in_data=np.array([0, 1, 0, 0, 1, 0], bool))

    def v_set_later():
        x = CrystalMap(Rotation(plain_quats(6)), phase_id=np.array([2, 7, 2, 7, 2, 7]), phase_list=pl2(),
                       prop={"iq": np.arange(6.0)})
        x[x.iq > 3].phase_id = -1
        return x
    for name, f in [("all-1d", v_all_1d), ("all-2d-masked", v_all_2d_masked), ("all-with-phase-list", v_all_with_phase_list),
                    ("all-two-rotations-per-point", v_all_k2), ("not-indexed-only-outside-data", v_ni_only_masked_out),
                    ("phase-only-outside-data", v_phase_only_masked_out), ("only-not-indexed-in-data", v_only_ni_in_data),
                    ("set-through-masked-view", v_set_later)]:
        st("notindexed:" + name)
        x = f()
        cycle(x, f"notindexed:{name}:", {"stratum": "notindexed", "variant": name, "phase_id": x._phase_id.tolist(),
                                         "is_in_data": x.is_in_data.tolist(),
                                         "how": "stratum_not_indexed() of tools/impl/c13.py"}, tag="ni")


# ---- 6. rotation arrays with three and more axes, size-1 axes, subclasses of Rotation, integer quaternions ------
def stratum_rotshape():
    from orix.quaternion import Misorientation, Orientation
    shapes = [(4, 2, 3), (3, 1, 2), (5, 2, 1), (2, 2, 2, 2), (6, 1, 1), (3, 4), (7,)]
    classes = ["Rotation", "Orientation-m-3m", "Misorientation-432-622", "Rotation-from-int", "Rotation-from-float32"]
    for i, sh in enumerate(shapes):
        for j in range(2):
            cls = classes[(i + 2 * j) % len(classes)] if j else classes[0]
            imp_mode = ["none", "some", "all"][(i + j) % 3]
            n = sh[0]
            cnt = int(np.prod(sh))
            if cls == "Rotation-from-int":
                pool = [[1, 0, 0, 0], [0, 0, 0, 1], [1, 0, 0, 1], [1, 1, 1, 1], [2, 0, 0, -1], [-1, 1, 0, 0], [3, -1, 2, 1]]
                q = np.array([pool[(t + i) % len(pool)] for t in range(cnt)], dtype=int).reshape(sh + (4,))
            else:
                q = plain_quats(cnt).reshape(sh + (4,))
                if cls == "Rotation-from-float32":
                    q = q.astype("float32")
            if cls.startswith("Orientation"):
                rot = Orientation(q, symmetry=osym.Oh)
            elif cls.startswith("Misorientation"):
                rot = Misorientation(q, symmetry=(osym.O, osym.D6))
            else:
                rot = Rotation(q)
            imp = np.zeros(sh, bool)
            if imp_mode == "some":
                imp.reshape(-1)[::2] = True
            elif imp_mode == "all":
                imp[...] = True
            if imp_mode != "none":
                rot.improper = imp
            mask = None if (i + j) % 2 == 0 else partial_mask(n, i)
            x = CrystalMap(rot, is_in_data=mask, phase_id=np.array([t % 2 for t in range(n)]),
                           prop={"iq": np.arange(n) * 1.0})
            name = f"{len(sh)}-axes" + ("-size1" if 1 in sh[1:] else "") + ":" + cls
            st("rotshape:" + name + ":improper-" + imp_mode)
            cycle(x, f"rotshape:{name}:", {"stratum": "rotshape", "shape": list(sh), "class": cls, "improper": imp_mode,
                                           "quaternions": np.asarray(rot.data, float).reshape(-1, 4).tolist(),
                                           "mask": None if mask is None else mask.tolist()}, tag="rsh")


# ---- 7. histories: maps obtained by slicing / copying / modifying / loading, not straight from the constructor ---
def stratum_history():
    def base(i):
        r, c = [(3, 4), (4, 5), (2, 6)][i % 3]
        n = r * c
        d, _ = create_coordinate_arrays((r, c), [(1.5, 1.5), (0.5, 2), (1, 1)][i % 3])
        k = [0, 2][i % 2]
        q = plain_quats(n * max(k, 1))
        pl = PhaseList({1: Phase("alpha", point_group="m-3m", color="r"),
                        3: Phase("beta", space_group=[194, 62, 225][i % 3], color="lime",
                                 structure=Structure(atoms=[Atom("Ti", [0, 0, 0.25])], lattice=Lattice(3, 3, 4.7, 90, 90, 120)))})
        return CrystalMap(Rotation(q.reshape(n, k, 4) if k else q), phase_id=np.array([1, 3, 3] * n)[:n], x=d["x"], y=d["y"],
                          phase_list=pl, prop={"iq": np.arange(n) * 1.0, "grain": np.arange(n) % 4}, scan_unit="um")

    def h_reloaded_sliced(m):
        r = cycle(m, "history:reloaded-then-sliced:first:", {"stratum": "history"}, second=False, tag="hist0")
        return None if r is None else r[1][1:, 1:3]

    def h_modified(m):
        m.prop["added"] = np.arange(m.size) * 2
        m.added = np.arange(m.size) * 3
        m.scan_unit = "nm"
        m.phases[1].name = "renamed"
        m.phases[1].color = "xkcd:sky blue"
        m.phases[3].space_group = 229
        m.phases[1].point_group = "6/mmm"
        m[m.iq > m.size - 3].phase_id = -1
        return m

    def h_empty(m):
        e = CrystalMap.empty((3, 4), step_sizes=(0.5, 2))
        e.prop["q"] = np.arange(12) % 5
        return e[:, 1:]

    def h_prop_on_view(m):
        v = m[m.iq > 2]
        v.prop["extra"] = np.arange(v.size) + 7.0
        return v

    def h_phases_replaced(m):
        m.phases = PhaseList({1: Phase("p", space_group=1, color="k"), 3: Phase("q", point_group="-1", color="g")})
        return m
    variants = [("slice-2d", lambda m: m[1:3, 1:4]), ("slice-rows", lambda m: m[1:]), ("slice-one-row", lambda m: m[1]),
                ("slice-step", lambda m: m[::2, ::2]),
                ("phase-name", lambda m: m["alpha"]), ("two-phase-names", lambda m: m["alpha", "beta"]),
                ("indexed", lambda m: m["indexed"]), ("boolean", lambda m: m[m.iq > 4]),
                ("boolean-and", lambda m: m[(m.iq > 2) & (m.grain != 1)]),
                ("nested", lambda m: m[1:, :][m[1:, :].iq > 6]), ("nested-phase-slice", lambda m: m["beta"][0:2, :]),
                ("deepcopy", lambda m: m.deepcopy()), ("deepcopy-of-view", lambda m: m[:, 1:].deepcopy()),
                ("reloaded-then-sliced", h_reloaded_sliced), ("modified-after-construction", h_modified),
                ("empty-then-sliced", h_empty), ("property-set-on-view", h_prop_on_view),
                ("phases-replaced", h_phases_replaced)]
    for i, (name, f) in enumerate(variants):
        parent = base(i)
        try:
            child = f(parent)
        except Exception as e:  # noqa
            fail("harness:history:" + name, f"could not derive the map: {traceback.format_exc()[-300:]}", {"variant": name})
            continue
        if child is None or not np.any(child.is_in_data):
            fail("harness:history:" + name, "derived map has no point in the data (generator problem)", {"variant": name})
            continue
        st("history:" + name)
        rep = {"stratum": "history", "variant": name, "base": i, "how": "stratum_history() of tools/impl/c13.py: "
               "parent = base(i); child = variant(parent); io.save(child); io.load", "is_in_data": child.is_in_data.tolist(),
               "phase_id": child._phase_id.tolist()}
        p0 = jrec(map_rec(parent))
        cycle(child, f"history:{name}:", rep, tag="hist")
        if jrec(map_rec(parent)) != p0:
            fail(f"history:{name}:save-mutates-parent", "saving a derived map modified the map it was derived from", rep)


# ---- 8. strings (names, units, property names) and structures outside the generator's lists -------------------
def stratum_phase_data():
    rot = np.array([[0.36, 0.48, -0.8], [-0.8, 0.6, 0.0], [0.48, 0.64, 0.6]])
    strings = [" lead", "trail ", "two\nlines", "tab\there", "n" * 300, "\U0001d6fc-Ti", "a\\b", "quote\"'", "%s{}",
               "é combining", "中文", "."]
    lattices = [("base-rotated", lambda: Lattice(base=np.diag([3.0, 4.0, 5.0]) @ rot)),
                ("rhombohedral", lambda: Lattice(4, 4, 4, 60, 60, 60)),
                ("obtuse-triclinic", lambda: Lattice(3, 4, 5, 110, 115, 100)),
                ("baserot-given", lambda: Lattice(3, 4, 5, 90, 90, 120, baserot=rot)),
                ("large-cell", lambda: Lattice(500, 200.5, 300.25, 90, 95, 90)),
                ("small-cell", lambda: Lattice(0.05, 0.06, 0.07, 90, 90, 90))]
    atomsets = [("isotropic-U-zero-occupancy-outside-cell",
                 lambda: [Atom("Fe", [-0.25, 1.5, 0.3], occupancy=0.0, Uisoequiv=0.02),
                          Atom("O2-", [0.1, 0.2, 0.3], label="L" * 40, U=np.diag([0.01, 0.02, 0.03]))]),
                ("104-atoms", lambda: [Atom("C", [t / 200, (t % 7) / 7, 0], label="L%d" % t, occupancy=1 - t / 500)
                                       for t in range(104)]),
                ("empty-element-and-label", lambda: [Atom("", [0, 0, 0], label=""), Atom("D", [0.5, 0.5, 0.5])])]
    for i in range(len(strings)):
        lname, lat = lattices[i % len(lattices)]
        aname, ats = atomsets[i % len(atomsets)]
        s = strings[i]
        pname = strings[(i + 5) % len(strings)]
        unit = strings[(i + 3) % len(strings)]
        propname = strings[(i + 7) % len(strings)]
        n = 3 + i % 3
        pl = PhaseList({4: Phase(s, space_group=[1, 2, 75, None][i % 4], structure=Structure(atoms=ats(), lattice=lat())),
                        12: Phase(pname + "#2", point_group="m-3m")})
        prop = {} if propname == "." else {propname: np.arange(n) * 1.0}    # "." is the HDF5 name of the group itself
        x = CrystalMap(Rotation(plain_quats(n)), phase_id=np.array([4, 12, 4, 12, 4])[:n], phase_list=pl, prop=prop,
                       scan_unit=unit, is_in_data=None if i % 2 else partial_mask(n, i))
        st("phasedata:lattice-" + lname)
        st("phasedata:atoms-" + aname)
        cycle(x, "phasedata:", {"stratum": "phasedata", "phase_name": s, "second_phase_name": pname + "#2",
                                "scan_unit": unit, "property_name": propname, "lattice": lname, "atoms": aname,
                                "how": "stratum_phase_data() of tools/impl/c13.py, i = %d" % i}, second=(i % 3 != 1),
              tag="pd")


EXTRA = [("phasedata", stratum_phase_data), ("entry", stratum_entry), ("propdtype", stratum_prop_dtype), ("coords", stratum_coords),
         ("symall", stratum_sym_all), ("notindexed", stratum_not_indexed), ("rotshape", stratum_rotshape),
         ("history", stratum_history)]

if ONLY is not None:
    specs = ONLY
else:
    specs = [gen_spec(k) for k in range(N)]
for k, s in enumerate(specs):
    try:
        c = run_case(s, k)
        cases.append(c)
    except Exception as e:  # noqa  (building the map itself failed: generator problem, reported loudly)
        fail("harness:build:" + type(e).__name__, f"could not build the map of a spec: {traceback.format_exc()[-400:]}", {"spec": s})
if ONLY is None:
    for name_, f_ in EXTRA:
        if P.get("extra") is not None and name_ not in P["extra"]:
            continue
        try:
            f_()
        except Exception as e:  # noqa  (a stratum itself failed: generator problem, reported loudly)
            fail("harness:extra:" + name_ + ":" + type(e).__name__,
                 f"extra stratum {name_} stopped: {traceback.format_exc()[-600:]}", {"stratum": name_})

# idempotence of the colour canonicalisation on its own outputs (external table)
colors_used = sorted({p["color"] for c in cases for p in c["m"]["phases"].values()} | {"white", "w"})
canon = canon_colors(colors_used)
for c_, v in canon.items():
    if Phase(color=v).color != v:
        fail("color:canon-not-idempotent", f"Phase(color={v!r}).color != {v!r}", {"color": c_})
emit({"cases": cases, "fails": fails, "strata": strata, "tables": tables(), "canon": canon})
