"""Helpers shared by the implementation-side harnesses (run under /venv python
with PYTHONPATH=/repo)."""
import json
import math
import random
import sys
import warnings

import numpy as np

warnings.filterwarnings("ignore")


def payload():
    return json.loads(sys.stdin.read() or "{}")


def emit(obj):
    sys.stdout.write("\n@@JSON@@" + json.dumps(obj, default=_default))


def _default(o):
    if isinstance(o, (np.floating,)):
        return float(o)
    if isinstance(o, (np.integer,)):
        return int(o)
    if isinstance(o, np.bool_):
        return bool(o)
    if isinstance(o, np.ndarray):
        return o.tolist()
    return str(o)


def rng(seed):
    return random.Random(seed)


def rand_unit_quat(r, hemisphere=None):
    while True:
        q = [r.gauss(0, 1) for _ in range(4)]
        n = math.sqrt(sum(x * x for x in q))
        if n > 1e-3:
            q = [x / n for x in q]
            if hemisphere == "pos" and q[0] < 0:
                q = [-x for x in q]
            if hemisphere == "neg" and q[0] > 0:
                q = [-x for x in q]
            return q


def rand_vec(r, scale=1.0):
    return [r.gauss(0, 1) * scale for _ in range(3)]


def axang_quat(axis, w):
    n = math.sqrt(sum(a * a for a in axis))
    s = math.sin(w / 2) / n
    return [math.cos(w / 2), axis[0] * s, axis[1] * s, axis[2] * s]


def set_backend(flag):
    """toggle the optional numpy-quaternion backend at run time"""
    import orix.constants as c
    c.installed["numpy-quaternion"] = bool(flag)


def exc_name(e):
    return type(e).__name__
