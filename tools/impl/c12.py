"""C12 implementation harness: runs generated phase-list programs and crystal-map
programs on /repo's working tree, records every observation (for the Coq
correspondence) and checks the property directly (oracle, stable signatures)."""
import copy
import itertools

import numpy as np
from common import emit, payload, rng

from orix.crystal_map import CrystalMap, Phase, PhaseList
from orix.quaternion import Rotation

P = payload()
R = rng(P.get("seed", 0))
N = P.get("n", 200)
EXH = P.get("exhaustive", 1)
ONLY = P.get("only")          # replay: list of case payloads to re-run instead of generating

PGS = ["m-3m", "432", "6/mmm", "-1", "mmm", "4/mmm", "-3m", "1", "222", "m-3", None, None]
NAMES = ["a", "b", "c", "d", "al", "fe", "ni", None, None]
SGS = {225: "m-3m", 229: "m-3m", 194: "6/mmm", 62: "mmm", 2: "-1"}

cases, fails, strata = [], [], {}


def st(k):
    strata[k] = strata.get(k, 0) + 1


def fail(sig, what, rep):
    fails.append({"sig": sig, "what": what, "replay": rep})


def exn(e):
    n = type(e).__name__
    return n if n in ("ValueError", "KeyError", "IndexError", "TypeError", "AttributeError") else "OtherError"


# ------------------------------------------------------------- observations
def obs_phase(p):
    return {"n": p.name, "g": None if p.point_group is None else p.point_group.name,
            "s": 0 if p.space_group is None else int(p.space_group.number)}


def obs_pl(pl):
    return [[int(i), obs_phase(p)] for i, p in pl._dict.items()]


def mk_phase(spec):
    """spec = {n, g, s} as drawn by the generator (s = space-group number or 0)"""
    return Phase(name=spec["n"], point_group=spec["g"], space_group=spec["s"] or None)


def rand_phase_spec(names=None):
    n = R.choice(names or NAMES)
    if R.random() < 0.2:
        s = R.choice(list(SGS))
        return {"n": n, "g": None, "s": s}
    return {"n": n, "g": R.choice(PGS), "s": 0}


def distinct_phase_specs(k):
    """k phase specs with pairwise distinct names, except that unnamed phases may repeat"""
    out, used = [], set()
    for _ in range(k):
        for _ in range(20):
            sp = rand_phase_spec()
            if sp["n"] is None or sp["n"] not in used:
                break
        else:
            sp["n"] = None
        used.add(sp["n"])
        out.append(sp)
    return out


# ------------------------------------------------------ phase-list builders
def rand_ids(k, lo=-1, hi=7):
    kind = R.choice(["arange", "sparse", "sparse", "with-1", "dups", "unsorted"])
    if kind == "arange":
        return list(range(k)), kind
    if kind == "with-1":
        return [-1] + sorted(R.sample(range(0, hi), max(k - 1, 0))), kind
    if kind == "dups":
        return [R.randrange(0, max(2, k)) for _ in range(k)], kind
    l = R.sample(range(0, hi), k)
    return (sorted(l), kind) if kind == "sparse" else (l, kind)


def rand_ctor():
    """a PhaseList constructor call as JSON"""
    how = R.choice(["phases", "phases", "phases+ids", "phases+ids", "dict", "fields", "fields", "fields+ids"])
    k = R.choice([0, 1, 1, 2, 2, 3, 3, 4, 5])
    if how in ("phases", "phases+ids", "dict"):
        specs = distinct_phase_specs(k) if R.random() < 0.8 else [rand_phase_spec() for _ in range(k)]
        if how == "phases":
            return {"how": "phases", "phases": specs, "ids": None}
        ids, kind = rand_ids(max(k + R.choice([0, 0, 0, -1, 1]), 0))
        if how == "dict":
            ids = (ids + list(range(20, 20 + k)))[:k]
            return {"how": "dict", "phases": specs, "ids": ids}
        return {"how": "phases", "phases": specs, "ids": ids}
    nn = R.choice([0, k, k, max(k - 1, 0), k + 1])
    ng = R.choice([0, k, k, max(k - 1, 0)])
    names = [R.choice(NAMES) for _ in range(nn)] if R.random() < 0.3 else \
        [s["n"] for s in distinct_phase_specs(nn)]
    pgs = [R.choice(PGS) for _ in range(ng)]
    ids = None
    if how == "fields+ids":
        ids, _ = rand_ids(R.choice([0, k, k, max(k - 1, 0), k + 1]))
    return {"how": "fields", "names": names, "pgs": pgs, "ids": ids}


def build_pl(c):
    if c["how"] == "phases":
        ph = [mk_phase(s) for s in c["phases"]]
        c["_phobs"] = [obs_phase(p) for p in ph]
        return PhaseList(ph, ids=None if c["ids"] is None else list(c["ids"])), c["_phobs"]
    if c["how"] == "dict":
        ph = [mk_phase(s) for s in c["phases"]]
        c["_phobs"] = [obs_phase(p) for p in ph]
        return PhaseList(dict(zip(c["ids"], ph))), c["_phobs"]
    kw = {}
    if c["names"]:
        kw["names"] = list(c["names"])
    if c["pgs"]:
        kw["point_groups"] = list(c["pgs"])
    if c["ids"] is not None:
        kw["ids"] = list(c["ids"])
    return PhaseList(**kw), None


def ref_dict(pairs):
    d = {}
    for k, v in pairs:
        d[k] = v
    return sorted(d.items(), key=lambda kv: kv[0])


def ctor_reference(c, phobs):
    """expected [[id, phase]] or an exception name -- dict semantics + sort"""
    if c["how"] == "phases":
        ids = list(range(len(phobs))) if c["ids"] is None else c["ids"]
        return [[i, p] for i, p in ref_dict(zip(ids, phobs))]
    if c["how"] == "dict":
        return [[i, p] for i, p in ref_dict(zip(c["ids"], phobs))]
    names, pgs, ids = c["names"] or [], c["pgs"] or [], c["ids"]
    n = max(len(names), len(pgs), len(ids) if ids is not None else 0)
    if ids is None:
        ids = list(range(n))
    out, extra = [], 0
    for i in range(n):
        if i < len(ids):
            k = ids[i]
        elif not ids:
            return "ValueError"
        else:
            k = max(ids) + extra + 1
            extra += 1
        out.append((k, {"n": (names[i] if i < len(names) and names[i] is not None else ""),
                        "g": pgs[i] if i < len(pgs) else None, "s": 0}))
    return [[i, p] for i, p in ref_dict(out)]


def mk_key(k):
    """JSON key -> python key for PhaseList.__getitem__"""
    t = k["t"]
    if t == "int":
        return k["v"]
    if t == "str":
        return k["v"]
    if t in ("ints", "strs"):
        c = k["c"]
        return tuple(k["v"]) if c == "tuple" else list(k["v"]) if c == "list" else np.array(k["v"], dtype=int)
    if t == "slice":
        return slice(k["a"], k["b"], k["s"])
    raise ValueError(t)


def rand_key(pl):
    ids = [int(i) for i in pl.ids] or [0]
    names = list(pl.names) or ["a"]
    t = R.choice(["int", "int", "str", "str", "ints", "ints", "strs", "slice", "slice", "slice"])
    if t == "int":
        return {"t": "int", "v": R.choice(ids + [R.randrange(-2, 9)])}
    if t == "str":
        return {"t": "str", "v": R.choice(names + ["zzz", "not_indexed"])}
    if t == "ints":
        k = R.choice([0, 1, 1, 2, 2, 3])
        v = [R.choice(ids + ids + [R.randrange(-2, 9)]) for _ in range(k)]
        return {"t": "ints", "c": R.choice(["tuple", "list", "arr"]), "v": v}
    if t == "strs":
        k = R.choice([0, 1, 2, 2, 3])
        return {"t": "strs", "c": R.choice(["tuple", "list"]), "v": [R.choice(names + names + ["zzz"]) for _ in range(k)]}
    sl = lambda: R.choice([None, None, 0, 1, 2, 3, 5, -1, -2, 9, -9])  # noqa
    return {"t": "slice", "a": sl(), "b": sl(), "s": R.choice([None, None, None, 1, 2, -1, -2, 0])}


def index_reference(entries, k):
    """entries = [[id, phase]] (current list, in order) -> expected result of pl[key]:
    ("one", phase) | ("many", [[id, phase]]) | exception name.  Written from the
    documentation: exactly the phases with those ids / names."""
    ids = [e[0] for e in entries]
    t = k["t"]
    if t in ("int", "ints"):
        ks = [k["v"]] if t == "int" else list(k["v"])
        if t == "ints" and not ks:
            return "KeyError" if k["c"] == "arr" else "IndexError"
        if any(x not in ids for x in ks):
            return "KeyError"
        sel = [e for e in entries if e[0] in ks]
    elif t in ("str", "strs"):
        ks = [k["v"]] if t == "str" else list(k["v"])
        if t == "strs" and not ks:
            return "IndexError"
        sel = [e for e in entries if e[1]["n"] in ks]
    else:
        if not ids:
            return "IndexError"
        if k["s"] == 0:
            return "ValueError"
        first = -1 if ids[0] == -1 else 0
        wanted = list(range(first, max(ids) + 1))[slice(k["a"], k["b"], k["s"])]
        sel = [e for e in entries if e[0] in wanted]
    if not sel:
        return "KeyError"
    sel = sorted(sel, key=lambda e: e[0])
    return ("one", sel[0][1]) if len(sel) == 1 else ("many", sel)


def strictly_sorted(ids):
    return all(a < b for a, b in zip(ids, ids[1:]))


# -------------------------------------------------------------- PL programs
def run_pl_case(c):
    """c = {ctor, ops} ; fills observations into c and runs the oracle"""
    rep = {"kind": "pl", "ctor": c["ctor"], "ops": c["ops"] or []}
    try:
        pl, phobs = build_pl(c["ctor"])
        c["init"] = {"ok": obs_pl(pl)}
    except Exception as e:  # noqa
        pl, phobs = None, None
        c["init"] = {"err": exn(e)}
    # oracle: constructor = dict semantics, sorted by id
    try:
        if phobs is None and c["ctor"]["how"] != "fields":
            phobs = [obs_phase(mk_phase(s)) for s in c["ctor"]["phases"]]
        ref = ctor_reference(c["ctor"], phobs)
    except Exception as e:  # noqa
        ref = None
    got = c["init"].get("ok", c["init"].get("err"))
    if ref is not None and got != ref:
        fail(f"pl:ctor:{c['ctor']['how']}", f"PhaseList constructor: expected {ref}, got {got}", rep)
    if pl is None:
        c["steps"] = []
        c["ops"] = c["ops"] or []
        return
    if not strictly_sorted([e[0] for e in c["init"]["ok"]]):
        fail("pl:sorted:after=ctor", f"ids not sorted/unique after construction: {pl.ids}", rep)
    steps = []
    gen = c["ops"] is None
    ops = [] if gen else c["ops"]
    rep["ops"] = ops            # same list object: complete by the time it is emitted
    nops = R.choice([1, 2, 3, 4, 5, 6]) if gen else len(ops)
    for j in range(nops):
        if gen:
            o = rand_plop(pl)
            ops.append(o)
        else:
            o = ops[j]
        before = obs_pl(pl)
        s = {"op": o}
        try:
            if o["o"] == "add":
                newp = [mk_phase(sp) for sp in o["phases"]]
                o["_phobs"] = [obs_phase(p) for p in newp]
                pl.add(newp if len(newp) != 1 or o.get("aslist") else newp[0])
            elif o["o"] == "del":
                k = o["k"]
                if k["t"] == "other":
                    del pl[1.5]
                else:
                    del pl[k["v"]]
            elif o["o"] == "addni":
                pl.add_not_indexed()
            elif o["o"] == "sort":
                pl.sort_by_id()
            elif o["o"] == "index":
                r = pl[mk_key(o["k"])]
                if isinstance(r, PhaseList):
                    s["res"] = {"many": obs_pl(r)}
                    if o.get("cont"):
                        pl = r
                else:
                    s["res"] = {"one": obs_phase(r)}
            s["exn"] = None
        except Exception as e:  # noqa
            s["exn"] = exn(e)
        after = obs_pl(pl)
        s["after"] = after
        steps.append(s)
        st(f"pl/{o['o']}" + (f"/{o['k']['t']}" if "k" in o else "") + ("/raises" if s["exn"] else ""))
        # ---------------- oracle
        aft_ids = [e[0] for e in after]
        if strictly_sorted([e[0] for e in before]) and not strictly_sorted(aft_ids):
            fail(f"pl:sorted:after={o['o']}", f"ids no longer sorted/unique after {o['o']}: {aft_ids}", rep)
        if o["o"] == "add":
            nb = [e[1]["n"] for e in before]
            new = [obs_phase(mk_phase(sp)) for sp in o["phases"]]
            exp, clash = list(before), False
            for p in new:
                if p["n"] in [e[1]["n"] for e in exp]:
                    clash = True
                    break
                exp.append([max([e[0] for e in exp]) + 1 if exp else 0, p])
            if clash and s["exn"] != "ValueError":
                fail("pl:add:present-name-accepted", f"add of a present name not rejected: names {nb} + {new}", rep)
            if not clash and s["exn"]:
                fail("pl:add:raises", f"add of fresh names raises {s['exn']}", rep)
            if after != exp:
                fail("pl:add:entries", f"after add expected {exp}, got {after}", rep)
        elif o["o"] == "del":
            k = o["k"]
            ids = [e[0] for e in before]
            if k["t"] == "int":
                exp = [e for e in before if e[0] != k["v"]] if k["v"] in ids else "KeyError"
            elif k["t"] == "str":
                hit = [e[0] for e in before if e[1]["n"] == k["v"]]
                exp = [e for e in before if e[0] != hit[0]] if hit else "KeyError"
            else:
                exp = "TypeError"
            got = s["exn"] if s["exn"] else after
            if got != exp or (s["exn"] and after != before):
                fail(f"pl:del:{k['t']}", f"del expected {exp}, got {got}", rep)
        elif o["o"] == "addni":
            exp = sorted([e for e in before if e[0] != -1] + [[-1, {"n": "not_indexed", "g": None, "s": 0}]],
                         key=lambda e: e[0])
            if after != exp or s["exn"]:
                fail("pl:add_not_indexed", f"expected {exp}, got {after}", rep)
        elif o["o"] == "sort":
            if after != sorted(before, key=lambda e: e[0]):
                fail("pl:sort", f"sort_by_id gave {after}", rep)
        elif o["o"] == "index":
            exp = index_reference(before, o["k"])
            if s["exn"]:
                got = s["exn"]
            elif "one" in s["res"]:
                got = ("one", s["res"]["one"])
            else:
                got = ("many", s["res"]["many"])
            if got != exp:
                fail(f"pl:index:{o['k']['t']}", f"pl[{o['k']}] on {before}: expected {exp}, got {got}", rep)
            if not o.get("cont") and after != before:
                fail("pl:index:mutates", "indexing changed the list", rep)
    c["ops"] = ops
    c["steps"] = steps


def rand_plop(pl):
    o = R.choice(["add", "add", "del", "del", "addni", "sort", "index", "index", "index", "index"])
    if o == "add":
        k = R.choice([1, 1, 1, 2, 3])
        present = list(pl.names)
        specs = []
        for _ in range(k):
            sp = rand_phase_spec()
            if R.random() < 0.25 and present:
                sp["n"] = R.choice(present)
            specs.append(sp)
        return {"o": "add", "phases": specs, "aslist": R.random() < 0.5}
    if o == "del":
        ids = [int(i) for i in pl.ids] or [0]
        t = R.choice(["int", "int", "str", "str", "other"])
        if t == "int":
            return {"o": "del", "k": {"t": "int", "v": R.choice(ids + ids + [R.randrange(-2, 9)])}}
        if t == "str":
            return {"o": "del", "k": {"t": "str", "v": R.choice(list(pl.names) + list(pl.names) + ["zzz"])}}
        return {"o": "del", "k": {"t": "other"}}
    if o == "index":
        return {"o": "index", "k": rand_key(pl), "cont": R.random() < 0.3}
    return {"o": o}


# ------------------------------------------------------------- map programs
def enc_arr(a):
    """numpy property array -> {d: 'i'|'f', v: [ints]} (floats as quarters)"""
    a = np.asarray(a)
    if a.dtype.kind in "iu":
        return {"d": "i", "v": [int(x) for x in a]}
    if a.dtype.kind == "f":
        q = a * 4
        if not np.all(q == np.round(q)):
            return {"d": "?", "v": [float(x) for x in a]}
        return {"d": "f", "v": [int(x) for x in q]}
    return {"d": "?", "v": [str(x) for x in a]}


def dec_val(v):
    """JSON property value -> python / numpy value"""
    if v["t"] == "scalar":
        return int(v["v"]) if v["d"] == "i" else float(v["v"]) / 4
    return np.array(v["v"], dtype=int) if v["d"] == "i" else np.array(v["v"], dtype=float) / 4


def obs_state(views):
    x = views[0]
    return {"pid": [int(i) for i in x._phase_id], "phases": obs_pl(x._phases),
            "props": [[k, enc_arr(dict.__getitem__(x._prop, k))] for k in dict.keys(x._prop)],
            "views": [[bool(b) for b in v.is_in_data] for v in views]}


def query(v):
    q = {}
    try:
        q["pid"] = {"ok": obs_pl(v.phases_in_data)}
    except Exception as e:  # noqa
        q["pid"] = {"err": exn(e)}
    try:
        q["ori"] = {"ok": v.orientations.symmetry.name}
    except Exception as e:  # noqa
        q["ori"] = {"err": exn(e)}
    return q


def init_reference(pid, caller):
    """expected phases after construction, by the rule pinned by the documentation and
    the test-suite: same number of phases -> linked by list order; more phases ->
    phases whose id is absent from the data are dropped from the end until the
    numbers agree, then linked by order; fewer -> each id takes the phase with that id,
    a default phase otherwise; not_indexed at -1 iff -1 is in the data -- an entry of id
    -1 in the caller's list takes no part in the linking."""
    u = sorted(set(pid) - {-1})
    ni = [-1, {"n": "not_indexed", "g": None, "s": 0}]
    dflt = {"n": "", "g": None, "s": 0}
    if caller is None:
        out = [[i, dflt] for i in u]
    else:
        L = [e for e in caller if e[0] != -1]
        if len(L) > len(u):
            surplus = len(L) - len(u)
            drop = sorted([e[0] for e in L if e[0] not in u], reverse=True)[:surplus]
            L = [e for e in L if e[0] not in drop]
            out = [[i, e[1]] for i, e in zip(u, L)]
        elif len(L) == len(u):
            out = [[i, e[1]] for i, e in zip(u, L)]
        else:
            d = {e[0]: e[1] for e in L}
            out = [[i, d.get(i, dflt)] for i in u]
    return ([ni] if -1 in pid else []) + out


def check_invariant(views, after, rep, tag=""):
    """the state invariant of the property, on the implementation"""
    x = views[0]
    ids = [int(i) for i in x.phases.ids]
    ok_entries = True
    if not strictly_sorted(ids):
        fail(f"inv:sorted:after={after}", f"phase ids not sorted/unique: {ids}", rep)
        return False
    present = sorted(set(int(i) for i in x._phase_id))
    if not set(present) <= set(ids):
        ok_entries = False
        fail(f"inv:entry-missing:after={after}{tag}",
             f"phase ids {sorted(set(present) - set(ids))} are in the data but have no entry in the phase list {ids}", rep)
    bad = [(int(i), p.name) for i, p in x.phases if (p.name == "not_indexed") != (int(i) == -1)]
    if bad:
        fail(f"inv:not_indexed:after={after}{tag}", f"'not_indexed' <-> id -1 broken: {bad}", rep)
    if not ok_entries or bad:
        return False        # later failures of this program would only be consequences
    for vi, v in enumerate(views):
        vp = sorted(set(int(i) for i in v.phase_id))
        if not vp:
            continue
        names = list(x.phases.names)
        single = len(vp) == 1
        dup = single and names.count(x.phases[vp[0]].name) > 1
        try:
            got = [int(i) for i in v.phases_in_data.ids]
        except Exception as e:  # noqa
            got = exn(e)
        if got != vp:
            fail(f"phases_in_data:ids:single={int(single)}:dupname={int(dup)}",
                 f"phases_in_data.ids = {got} but the ids present are {vp} (phase names {names})", rep)
        if single:
            ph = x.phases[vp[0]]
            exp = "TypeError" if ph.point_group is None else ph.point_group.name
            try:
                got = v.orientations.symmetry.name
            except Exception as e:  # noqa
                got = exn(e)
            if got != exp:
                fail("orientations:point-group", f"single-phase selection of phase {vp[0]}: orientations "
                     f"carry {got}, the phase has {exp}", rep)
    return True


def run_map_case(c):
    rep = {"kind": "map", "pid": c["pid"], "pl": c["pl"], "plprep": c.get("plprep", []), "inview": c["inview"],
           "props": c["props"], "ops": c["ops"] or []}
    pid = np.array(c["pid"], dtype=int)
    n = pid.size
    caller = caller_before = None
    if c["pl"] is not None:
        caller, _ = build_pl(c["pl"])
        for o in c.get("plprep", []):
            if o == "addni":
                caller.add_not_indexed()
        caller_before = obs_pl(caller)
    c["caller"] = caller_before
    props = {k: dec_val({"t": "arr", **a}) for k, a in c["props"]}
    kw = {}
    if c["inview"] is not None:
        kw["is_in_data"] = np.array(c["inview"], dtype=bool)
    try:
        x = CrystalMap(rotations=Rotation.identity(n), phase_id=pid.copy(), phase_list=caller,
                       prop=props, **kw)
    except Exception as e:  # noqa
        c["init"] = {"err": exn(e)}
        c["steps"] = []
        c["ops"] = c["ops"] or []
        fail("init:raises", f"CrystalMap construction raises {exn(e)}: {e}", rep)
        return
    views = [x]
    c["init"] = {"ok": obs_state(views)}
    caller_eff = None if caller_before is None else [e for e in caller_before if e[0] != -1]
    strat = "none" if caller_before is None else (
        "more" if len(caller_eff) > len(set(c["pid"]) - {-1}) else
        "equal" if len(caller_eff) == len(set(c["pid"]) - {-1}) else "fewer")
    st(f"init/{strat}/ni={int(-1 in c['pid'])}")
    # ---- oracle on construction
    tag = ""
    if caller_before is not None and any(e[1]["n"] == "not_indexed" for e in caller_before):
        tag = ":caller-has-not_indexed"
    exp = init_reference(c["pid"], caller_before)
    if c["init"]["ok"]["phases"] != exp:
        fail(f"init:rule:{strat}{tag}", f"phases after construction {c['init']['ok']['phases']}, expected {exp}", rep)
    if caller is not None and obs_pl(caller) != caller_before:
        fail("init:caller-list-altered", f"caller's phase list changed from {caller_before} to {obs_pl(caller)}", rep)
    if caller_before is not None and strat == "fewer":
        kept = [e[1] for e in c["init"]["ok"]["phases"]]
        lost = [e for e in caller_eff if e[1] not in kept and e[1]["n"] != "not_indexed"]
        if lost:
            fail("init:fewer:caller-phase-dropped",
                 f"phase list with fewer phases than ids: caller's phases {lost} are dropped (linked by id, "
                 f"not by list order as documented); ids in data {sorted(set(c['pid']))}", rep)
    if c["init"]["ok"]["pid"] != c["pid"]:
        fail("init:phase_id-changed", "constructor changed the phase ids", rep)
    clean = check_invariant(views, "init", rep, tag)
    # ---- ops
    gen = c["ops"] is None
    ops = [] if gen else c["ops"]
    rep["ops"] = ops            # same list object: complete by the time it is emitted
    nops = R.choice([2, 3, 4, 5, 6, 8]) if gen else len(ops)
    steps = []
    for j in range(nops):
        if gen:
            o = rand_mapop(views)
            ops.append(o)
        else:
            o = ops[j]
        s = {"op": o}
        before = obs_state(views)
        v = views[o["v"]] if "v" in o else None
        okpre = True     # the op satisfies the side condition of the property
        try:
            if o["o"] == "select":
                if o["s"]["t"] == "names":
                    ks = o["s"]["v"]
                    nv = v[ks[0]] if len(ks) == 1 and o["s"].get("single") else v[tuple(ks)]
                else:
                    nv = v[np.array(o["s"]["v"], dtype=bool)]
                views.append(nv)
            elif o["o"] == "setpid":
                val = o["val"]
                known = set(e[0] for e in before["phases"]) | {-1}
                if val["t"] == "scalar":
                    okpre = val["v"] in known
                    v.phase_id = int(val["v"])
                else:
                    okpre = all(z in known for z in val["v"])
                    v.phase_id = np.array(val["v"], dtype=int)
            elif o["o"] == "setprop":
                if o.get("attr") and o["k"] in dict.keys(v._prop):
                    setattr(v, o["k"], dec_val(o["val"]))
                else:
                    v.prop[o["k"]] = dec_val(o["val"])
            elif o["o"] == "phadd":
                okpre = all(sp["n"] != "not_indexed" for sp in o["phases"])
                newp = [mk_phase(sp) for sp in o["phases"]]
                o["_phobs"] = [obs_phase(p) for p in newp]
                x.phases.add(newp)
            elif o["o"] == "phdel":
                k = o["k"]
                if k["t"] == "int":
                    okpre = k["v"] not in before["pid"]
                elif k["t"] == "str":
                    hit = [e[0] for e in before["phases"] if e[1]["n"] == k["v"]]
                    okpre = not hit or hit[0] not in before["pid"]
                if k["t"] == "other":
                    del x.phases[1.5]
                else:
                    del x.phases[k["v"]]
            elif o["o"] == "phaddni":
                x.phases.add_not_indexed()
            elif o["o"] == "phsort":
                x.phases.sort_by_id()
            s["exn"] = None
        except Exception as e:  # noqa
            s["exn"] = exn(e)
        after = obs_state(views)
        s["after"] = after
        if o["o"] in ("setpid", "setprop", "select") or R.random() < 0.3:
            qv = len(views) - 1 if o["o"] == "select" and not s["exn"] else o.get("v", 0)
            s["q"] = {"v": qv, **query(views[qv])}
        steps.append(s)
        kind = o["o"] + ("_" + o["val"]["t"] if "val" in o else "") + ("_" + o["s"]["t"] if "s" in o else "")
        st(f"map/{kind}" + ("/raises" if s["exn"] else ""))
        # ---------------- oracle
        if not okpre:
            clean = False       # outside the property's quantifier from here on
        if o["o"] == "select":
            if s["exn"]:
                fail(f"select:{o['s']['t']}:raises", f"selection raises {s['exn']}", rep)
            else:
                old, new = before["views"][o["v"]], after["views"][-1]
                if o["s"]["t"] == "names":
                    ks = o["s"]["v"]
                    name_of = {e[0]: e[1]["n"] for e in before["phases"]}
                    want = [b and ((name_of.get(p) in ks) or ("indexed" in ks and p != -1 and len(name_of) > 0))
                            for b, p in zip(old, before["pid"])]
                else:
                    it = iter(o["s"]["v"])
                    want = [b and next(it) for b in old]
                if new != want:
                    fail(f"select:{o['s']['t']}", f"selection {o['s']} of view {old}: got {new}, expected {want}", rep)
            if {k: after[k] for k in ("pid", "phases", "props")} != {k: before[k] for k in ("pid", "phases", "props")}:
                fail("select:mutates", "a selection changed the underlying map", rep)
        elif o["o"] == "setpid":
            val, mask = o["val"], before["views"][o["v"]]
            cnt = sum(mask)
            vals = None
            if val["t"] == "scalar":
                vals = [val["v"]] * cnt
            elif len(val["v"]) == cnt:
                vals = list(val["v"])
            elif len(val["v"]) == 1:
                vals = val["v"] * cnt
            if vals is None:
                if not s["exn"] or after != before:
                    fail("set_phase_id:bad-length-accepted", "array of the wrong length accepted or state changed", rep)
            else:
                it = iter(vals)
                want = [next(it) if b else p for b, p in zip(mask, before["pid"])]
                if after["pid"] != want:
                    fail(f"set_phase_id:{val['t']}:frame", f"phase ids after assignment {after['pid']}, expected exactly "
                         f"the selected points changed: {want}", rep)
                if s["exn"] and okpre:
                    fail(f"set_phase_id:{val['t']}:raises-after-assigning:n={'0' if cnt == 0 else '1' if cnt == 1 else 'many'}",
                         f"assigning {val} to a selection of {cnt} points raises {s['exn']} "
                         f"(phase ids before {before['pid']}, after {after['pid']})", rep)
        elif o["o"] == "setprop":
            val, mask, k = o["val"], before["views"][o["v"]], o["k"]
            cnt = sum(mask)
            oldp = dict((a, b) for a, b in before["props"]).get(k)
            newp = dict((a, b) for a, b in after["props"]).get(k)
            vals = None
            if val["t"] == "scalar":
                vals = [val["v"]] * cnt
            elif len(val["v"]) == cnt:
                vals = list(val["v"])
            elif len(val["v"]) == 1:
                vals = val["v"] * cnt
            if vals is None:
                if not s["exn"]:
                    fail("set_prop:bad-length-accepted", "array of the wrong length accepted", rep)
            elif s["exn"] or newp is None:
                fail("set_prop:raises", f"property assignment raises {s['exn']}", rep)
            else:
                num = lambda d, z: z / 4 if d == "f" else z  # noqa
                oldnum = [0.0] * n if oldp is None else [num(oldp["d"], z) for z in oldp["v"]]
                newnum = [num(newp["d"], z) for z in newp["v"]]
                it = iter(vals)
                want = [num(val["d"], next(it)) if b else z for b, z in zip(mask, oldnum)]
                if newnum != want:
                    od = "new" if oldp is None else oldp["d"]
                    inside = all(a == b for a, b, m in zip(newnum, want, mask) if m)
                    fail(f"set_prop:frame:{od}->{newp['d']}:{'outside' if inside else 'inside'}-changed",
                         f"property '{k}' {oldnum} assigned {val} through selection {mask}: got {newnum}, expected "
                         f"exactly the selected points changed: {want}", rep)
            if after["pid"] != before["pid"] or after["phases"] != before["phases"]:
                fail("set_prop:touches-phases", "property assignment changed phase ids or phases", rep)
        if clean:
            clean = check_invariant(views, kind, rep)
    c["ops"] = ops
    c["steps"] = steps
    c["final"] = [{"v": i, **query(v)} for i, v in enumerate(views)]


def rand_mapop(views):
    x = views[0]
    vi = R.randrange(len(views))
    v = views[vi]
    ids = [int(i) for i in x.phases.ids]
    names = list(x.phases.names)
    o = R.choice(["select", "select", "select", "setpid", "setpid", "setpid", "setpid", "setprop", "setprop",
                  "phadd", "phdel", "phaddni", "phsort"])
    if o == "select":
        if R.random() < 0.5:
            k = R.choice([1, 1, 1, 2, 3])
            ks = [R.choice(names + names + ["indexed", "not_indexed", "zzz"]) for _ in range(k)]
            return {"o": "select", "v": vi, "s": {"t": "names", "v": ks, "single": R.random() < 0.5}}
        p = R.choice([0.2, 0.5, 0.8])
        return {"o": "select", "v": vi, "s": {"t": "mask", "v": [R.random() < p for _ in range(v.size)]}}
    if o == "setpid":
        pool = ids + ids + [-1, -1]
        if R.random() < 0.06:
            pool = pool + [R.randrange(0, 9)]       # now and then an unknown id (outside the quantifier)
        if R.random() < 0.5:
            return {"o": "setpid", "v": vi, "val": {"t": "scalar", "v": R.choice(pool)}}
        ln = v.size
        r = R.random()
        if r < 0.08:
            ln = 1
        elif r < 0.16:
            ln = max(0, v.size + R.choice([-1, 1, 2]))
        if R.random() < 0.4:
            pool = [i for i in ids] or [-1]          # arrays of listed ids only
        return {"o": "setpid", "v": vi, "val": {"t": "arr", "v": [R.choice(pool) for _ in range(ln)]}}
    if o == "setprop":
        keys = list(dict.keys(x._prop))
        k = R.choice(keys + keys + ["new1", "new2"])
        d = R.choice(["i", "f"])
        rv = lambda: R.randrange(-9, 10) if d == "i" else R.randrange(-30, 31)  # noqa
        r = R.random()
        if r < 0.35:
            val = {"t": "scalar", "d": d, "v": rv()}
        else:
            ln = v.size if r < 0.9 else max(0, v.size + R.choice([-1, 1]))
            val = {"t": "arr", "d": d, "v": [rv() for _ in range(ln)]}
        return {"o": "setprop", "v": vi, "k": k, "val": val, "attr": R.random() < 0.5}
    if o == "phadd":
        specs = [rand_phase_spec() for _ in range(R.choice([1, 1, 2]))]
        if R.random() < 0.2 and names:
            specs[-1]["n"] = R.choice(names)
        for sp in specs:
            if sp["n"] is None and R.random() < 0.5:
                sp["n"] = R.choice(["x", "y", "z", "w"])
        return {"o": "phadd", "phases": specs}
    if o == "phdel":
        present = set(int(i) for i in x._phase_id)
        free = [i for i in ids if i not in present]
        t = R.choice(["int", "int", "str", "other"])
        if t == "int":
            pool = free + free + [R.randrange(-2, 9)] + (ids if R.random() < 0.1 else [])
            return {"o": "phdel", "k": {"t": "int", "v": R.choice(pool)}}
        if t == "str":
            fn = [x.phases[i].name for i in free]
            return {"o": "phdel", "k": {"t": "str", "v": R.choice(fn + fn + ["zzz"])}}
        return {"o": "phdel", "k": {"t": "other"}}
    return {"o": o}


def rand_pid(n):
    kind = R.choice(["contig", "sparse", "sparse", "with-1", "with-1", "only-1", "single"])
    if kind == "only-1":
        return [-1] * n, kind
    if kind == "single":
        return [R.choice([0, 0, 1, 4])] * n, kind
    k = R.choice([1, 2, 2, 3, 3, 4])
    pool = list(range(k)) if kind == "contig" else sorted(R.sample(range(0, 8), k))
    if kind == "with-1":
        pool = pool + [-1]
    return [R.choice(pool) for _ in range(n)], kind


def rand_map_case():
    n = R.choice([1, 2, 3, 4, 5, 6, 8, 10, 12])
    pid, kind = rand_pid(n)
    pl, prep = None, []
    r = R.random()
    if r > 0.2:
        while True:
            pl = rand_ctor()
            # lists that PhaseList() accepts, with names pairwise distinct or missing
            try:
                t, _ = build_pl(pl)
            except Exception:  # noqa
                continue
            if "not_indexed" in t.names:
                continue
            break
        if R.random() < 0.2:
            prep = ["addni"]
    inview = None
    if R.random() < 0.25:
        inview = [R.random() < 0.7 for _ in range(n)]
    props = []
    for k in R.sample(["iq", "dp", "ci"], R.choice([0, 1, 1, 2])):
        d = R.choice(["i", "f", "f"])
        props.append([k, {"d": d, "v": [R.randrange(-9, 10) if d == "i" else R.randrange(-30, 31) for _ in range(n)]}])
    return {"kind": "map", "pid": pid, "pl": pl, "plprep": prep, "inview": inview, "props": props, "ops": None,
            "stratum": kind}


# ---------------------------------------------------------------------- main
def run_case(c):
    if c["kind"] == "pl":
        run_pl_case(c)
    else:
        run_map_case(c)
    cases.append(c)


if ONLY is not None:
    for c in ONLY:
        run_case(c)
else:
    for k in range(N):
        if k % 3 == 0:
            c = {"kind": "pl", "ctor": rand_ctor(), "ops": None}
        else:
            c = rand_map_case()
        run_case(c)
    if EXH:
        # bounded-exhaustive construction: every id set x every phase-list id set (small universe)
        uni_d = [-1, 0, 1, 3]
        uni_l = [-1, 0, 1, 2, 3]
        for r_ in range(1, len(uni_d) + 1):
            for dset in itertools.combinations(uni_d, r_):
                for q_ in range(0, 4 if EXH == 1 else 5):
                    for lset in itertools.combinations(uni_l, q_):
                        if q_ == 0:
                            pl = None
                        else:
                            phs = [{"n": "not_indexed" if i == -1 else "p%d" % i, "g": PGS[(i + 1) % 10], "s": 0}
                                   for i in lset]
                            pl = {"how": "phases", "phases": phs, "ids": list(lset)}
                        c = {"kind": "map", "pid": list(dset) + [dset[-1]], "pl": pl, "plprep": [], "inview": None,
                             "props": [], "ops": [], "stratum": "exhaustive"}
                        run_case(c)

emit({"cases": cases, "fails": fails, "strata": strata})
