"""C12 implementation harness: runs generated phase-list programs and crystal-map
programs on /repo's working tree, records every observation (for the Coq
correspondence) and checks the property directly (oracle, stable signatures)."""
import copy
import itertools

import numpy as np
from common import emit, payload, rng

from orix.crystal_map import CrystalMap, Phase, PhaseList
from orix.quaternion import Rotation

P = payload()
R = rng(P.get("seed", 0))
N = P.get("n", 200)
EXH = P.get("exhaustive", 1)
ONLY = P.get("only")          # replay: list of case payloads to re-run instead of generating

PGS = ["m-3m", "432", "6/mmm", "-1", "mmm", "4/mmm", "-3m", "1", "222", "m-3", None, None]
NAMES = ["a", "b", "c", "d", "al", "fe", "ni", None, None]
SGS = {225: "m-3m", 229: "m-3m", 194: "6/mmm", 62: "mmm", 2: "-1"}

cases, fails, strata = [], [], {}


def st(k):
    strata[k] = strata.get(k, 0) + 1


def fail(sig, what, rep):
    fails.append({"sig": sig, "what": what, "replay": rep})


def exn(e):
    n = type(e).__name__
    return n if n in ("ValueError", "KeyError", "IndexError", "TypeError", "AttributeError") else "OtherError"


# ------------------------------------------------------------- observations
def obs_phase(p):
    return {"n": p.name, "g": None if p.point_group is None else p.point_group.name,
            "s": 0 if p.space_group is None else int(p.space_group.number)}


def obs_pl(pl):
    return [[int(i), obs_phase(p)] for i, p in pl._dict.items()]


def mk_phase(spec):
    """spec = {n, g, s} as drawn by the generator (s = space-group number or 0)"""
    return Phase(name=spec["n"], point_group=spec["g"], space_group=spec["s"] or None)


def rand_phase_spec(names=None):
    n = R.choice(names or NAMES)
    if R.random() < 0.2:
        s = R.choice(list(SGS))
        return {"n": n, "g": None, "s": s}
    return {"n": n, "g": R.choice(PGS), "s": 0}


def distinct_phase_specs(k):
    """k phase specs with pairwise distinct names, except that unnamed phases may repeat"""
    out, used = [], set()
    for _ in range(k):
        for _ in range(20):
            sp = rand_phase_spec()
            if sp["n"] is None or sp["n"] not in used:
                break
        else:
            sp["n"] = None
        used.add(sp["n"])
        out.append(sp)
    return out


# ------------------------------------------------------ phase-list builders
def rand_ids(k, lo=-1, hi=7):
    kind = R.choice(["arange", "sparse", "sparse", "with-1", "dups", "unsorted"])
    if kind == "arange":
        return list(range(k)), kind
    if kind == "with-1":
        return [-1] + sorted(R.sample(range(0, hi), max(k - 1, 0))), kind
    if kind == "dups":
        return [R.randrange(0, max(2, k)) for _ in range(k)], kind
    l = R.sample(range(0, hi), k)
    return (sorted(l), kind) if kind == "sparse" else (l, kind)


def rand_ctor():
    """a PhaseList constructor call as JSON"""
    how = R.choice(["phases", "phases", "phases+ids", "phases+ids", "dict", "fields", "fields", "fields+ids"])
    k = R.choice([0, 1, 1, 2, 2, 3, 3, 4, 5])
    if how in ("phases", "phases+ids", "dict"):
        specs = distinct_phase_specs(k) if R.random() < 0.8 else [rand_phase_spec() for _ in range(k)]
        if how == "phases":
            return {"how": "phases", "phases": specs, "ids": None}
        ids, kind = rand_ids(max(k + R.choice([0, 0, 0, -1, 1]), 0))
        if how == "dict":
            ids = (ids + list(range(20, 20 + k)))[:k]
            return {"how": "dict", "phases": specs, "ids": ids}
        return {"how": "phases", "phases": specs, "ids": ids}
    nn = R.choice([0, k, k, max(k - 1, 0), k + 1])
    ng = R.choice([0, k, k, max(k - 1, 0)])
    names = [R.choice(NAMES) for _ in range(nn)] if R.random() < 0.3 else \
        [s["n"] for s in distinct_phase_specs(nn)]
    pgs = [R.choice(PGS) for _ in range(ng)]
    ids = None
    if how == "fields+ids":
        ids, _ = rand_ids(R.choice([0, k, k, max(k - 1, 0), k + 1]))
    return {"how": "fields", "names": names, "pgs": pgs, "ids": ids}


def build_pl(c):
    if c["how"] == "phases":
        ph = [mk_phase(s) for s in c["phases"]]
        c["_phobs"] = [obs_phase(p) for p in ph]
        return PhaseList(ph, ids=None if c["ids"] is None else list(c["ids"])), c["_phobs"]
    if c["how"] == "dict":
        ph = [mk_phase(s) for s in c["phases"]]
        c["_phobs"] = [obs_phase(p) for p in ph]
        return PhaseList(dict(zip(c["ids"], ph))), c["_phobs"]
    kw = {}
    if c["names"]:
        kw["names"] = list(c["names"])
    if c["pgs"]:
        kw["point_groups"] = list(c["pgs"])
    if c["ids"] is not None:
        kw["ids"] = list(c["ids"])
    return PhaseList(**kw), None


def ref_dict(pairs):
    d = {}
    for k, v in pairs:
        d[k] = v
    return sorted(d.items(), key=lambda kv: kv[0])


def ctor_reference(c, phobs):
    """expected [[id, phase]] or an exception name -- dict semantics + sort"""
    if c["how"] == "phases":
        ids = list(range(len(phobs))) if c["ids"] is None else c["ids"]
        return [[i, p] for i, p in ref_dict(zip(ids, phobs))]
    if c["how"] == "dict":
        return [[i, p] for i, p in ref_dict(zip(c["ids"], phobs))]
    names, pgs, ids = c["names"] or [], c["pgs"] or [], c["ids"]
    n = max(len(names), len(pgs), len(ids) if ids is not None else 0)
    if ids is None:
        ids = list(range(n))
    out, extra = [], 0
    for i in range(n):
        if i < len(ids):
            k = ids[i]
        elif not ids:
            return "ValueError"
        else:
            k = max(ids) + extra + 1
            extra += 1
        out.append((k, {"n": (names[i] if i < len(names) and names[i] is not None else ""),
                        "g": pgs[i] if i < len(pgs) else None, "s": 0}))
    return [[i, p] for i, p in ref_dict(out)]


def mk_key(k):
    """JSON key -> python key for PhaseList.__getitem__"""
    t = k["t"]
    if t == "int":
        return k["v"]
    if t == "str":
        return k["v"]
    if t in ("ints", "strs"):
        c = k["c"]
        return tuple(k["v"]) if c == "tuple" else list(k["v"]) if c == "list" else np.array(k["v"], dtype=int)
    if t == "slice":
        return slice(k["a"], k["b"], k["s"])
    raise ValueError(t)


def rand_key(pl):
    ids = [int(i) for i in pl.ids] or [0]
    names = list(pl.names) or ["a"]
    t = R.choice(["int", "int", "str", "str", "ints", "ints", "strs", "slice", "slice", "slice"])
    if t == "int":
        return {"t": "int", "v": R.choice(ids + [R.randrange(-2, 9)])}
    if t == "str":
        return {"t": "str", "v": R.choice(names + ["zzz", "not_indexed"])}
    if t == "ints":
        k = R.choice([0, 1, 1, 2, 2, 3])
        v = [R.choice(ids + ids + [R.randrange(-2, 9)]) for _ in range(k)]
        return {"t": "ints", "c": R.choice(["tuple", "list", "arr"]), "v": v}
    if t == "strs":
        k = R.choice([0, 1, 2, 2, 3])
        return {"t": "strs", "c": R.choice(["tuple", "list"]), "v": [R.choice(names + names + ["zzz"]) for _ in range(k)]}
    sl = lambda: R.choice([None, None, 0, 1, 2, 3, 5, -1, -2, 9, -9])  # noqa
    return {"t": "slice", "a": sl(), "b": sl(), "s": R.choice([None, None, None, 1, 2, -1, -2, 0])}


def index_reference(entries, k):
    """entries = [[id, phase]] (current list, in order) -> expected result of pl[key]:
    ("one", phase) | ("many", [[id, phase]]) | exception name.  Written from the
    documentation: exactly the phases with those ids / names."""
    ids = [e[0] for e in entries]
    t = k["t"]
    if t in ("int", "ints"):
        ks = [k["v"]] if t == "int" else list(k["v"])
        if t == "ints" and not ks:
            return "KeyError" if k["c"] == "arr" else "IndexError"
        if any(x not in ids for x in ks):
            return "KeyError"
        sel = [e for e in entries if e[0] in ks]
    elif t in ("str", "strs"):
        ks = [k["v"]] if t == "str" else list(k["v"])
        if t == "strs" and not ks:
            return "IndexError"
        sel = [e for e in entries if e[1]["n"] in ks]
    else:
        if not ids:
            return "IndexError"
        if k["s"] == 0:
            return "ValueError"
        first = -1 if ids[0] == -1 else 0
        wanted = list(range(first, max(ids) + 1))[slice(k["a"], k["b"], k["s"])]
        sel = [e for e in entries if e[0] in wanted]
    if not sel:
        return "KeyError"
    sel = sorted(sel, key=lambda e: e[0])
    return ("one", sel[0][1]) if len(sel) == 1 else ("many", sel)


def strictly_sorted(ids):
    return all(a < b for a, b in zip(ids, ids[1:]))


# -------------------------------------------------------------- PL programs
def run_pl_case(c):
    """c = {ctor, ops} ; fills observations into c and runs the oracle"""
    rep = {"kind": "pl", "ctor": c["ctor"], "ops": c["ops"] or []}
    try:
        pl, phobs = build_pl(c["ctor"])
        c["init"] = {"ok": obs_pl(pl)}
    except Exception as e:  # noqa
        pl, phobs = None, None
        c["init"] = {"err": exn(e)}
    # oracle: constructor = dict semantics, sorted by id
    try:
        if phobs is None and c["ctor"]["how"] != "fields":
            phobs = [obs_phase(mk_phase(s)) for s in c["ctor"]["phases"]]
        ref = ctor_reference(c["ctor"], phobs)
    except Exception as e:  # noqa
        ref = None
    got = c["init"].get("ok", c["init"].get("err"))
    if ref is not None and got != ref:
        fail(f"pl:ctor:{c['ctor']['how']}", f"PhaseList constructor: expected {ref}, got {got}", rep)
    if pl is None:
        c["steps"] = []
        c["ops"] = c["ops"] or []
        return
    if not strictly_sorted([e[0] for e in c["init"]["ok"]]):
        fail("pl:sorted:after=ctor", f"ids not sorted/unique after construction: {pl.ids}", rep)
    steps = []
    gen = c["ops"] is None
    ops = [] if gen else c["ops"]
    rep["ops"] = ops            # same list object: complete by the time it is emitted
    nops = R.choice([1, 2, 3, 4, 5, 6]) if gen else len(ops)
    for j in range(nops):
        if gen:
            o = rand_plop(pl)
            ops.append(o)
        else:
            o = ops[j]
        before = obs_pl(pl)
        s = {"op": o}
        try:
            if o["o"] == "add":
                newp = [mk_phase(sp) for sp in o["phases"]]
                o["_phobs"] = [obs_phase(p) for p in newp]
                pl.add(newp if len(newp) != 1 or o.get("aslist") else newp[0])
            elif o["o"] == "del":
                k = o["k"]
                if k["t"] == "other":
                    del pl[1.5]
                else:
                    del pl[k["v"]]
            elif o["o"] == "addni":
                pl.add_not_indexed()
            elif o["o"] == "sort":
                pl.sort_by_id()
            elif o["o"] == "index":
                r = pl[mk_key(o["k"])]
                if isinstance(r, PhaseList):
                    s["res"] = {"many": obs_pl(r)}
                    if o.get("cont"):
                        pl = r
                else:
                    s["res"] = {"one": obs_phase(r)}
            s["exn"] = None
        except Exception as e:  # noqa
            s["exn"] = exn(e)
        after = obs_pl(pl)
        s["after"] = after
        steps.append(s)
        st(f"pl/{o['o']}" + (f"/{o['k']['t']}" if "k" in o else "") + ("/raises" if s["exn"] else ""))
        # ---------------- oracle
        aft_ids = [e[0] for e in after]
        if strictly_sorted([e[0] for e in before]) and not strictly_sorted(aft_ids):
            fail(f"pl:sorted:after={o['o']}", f"ids no longer sorted/unique after {o['o']}: {aft_ids}", rep)
        if o["o"] == "add":
            nb = [e[1]["n"] for e in before]
            new = [obs_phase(mk_phase(sp)) for sp in o["phases"]]
            exp, clash = list(before), False
            for p in new:
                if p["n"] in [e[1]["n"] for e in exp]:
                    clash = True
                    break
                exp.append([max([e[0] for e in exp]) + 1 if exp else 0, p])
            if clash and s["exn"] != "ValueError":
                fail("pl:add:present-name-accepted", f"add of a present name not rejected: names {nb} + {new}", rep)
            if not clash and s["exn"]:
                fail("pl:add:raises", f"add of fresh names raises {s['exn']}", rep)
            if after != exp:
                fail("pl:add:entries", f"after add expected {exp}, got {after}", rep)
        elif o["o"] == "del":
            k = o["k"]
            ids = [e[0] for e in before]
            if k["t"] == "int":
                exp = [e for e in before if e[0] != k["v"]] if k["v"] in ids else "KeyError"
            elif k["t"] == "str":
                hit = [e[0] for e in before if e[1]["n"] == k["v"]]
                exp = [e for e in before if e[0] != hit[0]] if hit else "KeyError"
            else:
                exp = "TypeError"
            got = s["exn"] if s["exn"] else after
            if got != exp or (s["exn"] and after != before):
                fail(f"pl:del:{k['t']}", f"del expected {exp}, got {got}", rep)
        elif o["o"] == "addni":
            exp = sorted([e for e in before if e[0] != -1] + [[-1, {"n": "not_indexed", "g": None, "s": 0}]],
                         key=lambda e: e[0])
            if after != exp or s["exn"]:
                fail("pl:add_not_indexed", f"expected {exp}, got {after}", rep)
        elif o["o"] == "sort":
            if after != sorted(before, key=lambda e: e[0]):
                fail("pl:sort", f"sort_by_id gave {after}", rep)
        elif o["o"] == "index":
            exp = index_reference(before, o["k"])
            if s["exn"]:
                got = s["exn"]
            elif "one" in s["res"]:
                got = ("one", s["res"]["one"])
            else:
                got = ("many", s["res"]["many"])
            if got != exp:
                fail(f"pl:index:{o['k']['t']}", f"pl[{o['k']}] on {before}: expected {exp}, got {got}", rep)
            if not o.get("cont") and after != before:
                fail("pl:index:mutates", "indexing changed the list", rep)
    c["ops"] = ops
    c["steps"] = steps


def rand_plop(pl):
    o = R.choice(["add", "add", "del", "del", "addni", "sort", "index", "index", "index", "index"])
    if o == "add":
        k = R.choice([1, 1, 1, 2, 3])
        present = list(pl.names)
        specs = []
        for _ in range(k):
            sp = rand_phase_spec()
            if R.random() < 0.25 and present:
                sp["n"] = R.choice(present)
            specs.append(sp)
        return {"o": "add", "phases": specs, "aslist": R.random() < 0.5}
    if o == "del":
        ids = [int(i) for i in pl.ids] or [0]
        t = R.choice(["int", "int", "str", "str", "other"])
        if t == "int":
            return {"o": "del", "k": {"t": "int", "v": R.choice(ids + ids + [R.randrange(-2, 9)])}}
        if t == "str":
            return {"o": "del", "k": {"t": "str", "v": R.choice(list(pl.names) + list(pl.names) + ["zzz"])}}
        return {"o": "del", "k": {"t": "other"}}
    if o == "index":
        return {"o": "index", "k": rand_key(pl), "cont": R.random() < 0.3}
    return {"o": o}


# ------------------------------------------------------------- map programs
def enc_arr(a):
    """numpy property array -> {d: 'i'|'f', v: [ints]} (floats as quarters)"""
    a = np.asarray(a)
    if a.dtype.kind in "iu":
        return {"d": "i", "v": [int(x) for x in a]}
    if a.dtype.kind == "f":
        q = a * 4
        if not np.all(q == np.round(q)):
            return {"d": "?", "v": [float(x) for x in a]}
        return {"d": "f", "v": [int(x) for x in q]}
    return {"d": "?", "v": [str(x) for x in a]}


def dec_val(v):
    """JSON property value -> python / numpy value"""
    if v["t"] == "scalar":
        return int(v["v"]) if v["d"] == "i" else float(v["v"]) / 4
    return np.array(v["v"], dtype=int) if v["d"] == "i" else np.array(v["v"], dtype=float) / 4


def obs_state(views):
    x = views[0]
    return {"pid": [int(i) for i in x._phase_id], "phases": obs_pl(x._phases),
            "props": [[k, enc_arr(dict.__getitem__(x._prop, k))] for k in dict.keys(x._prop)],
            "views": [[bool(b) for b in v.is_in_data] for v in views]}


def query(v):
    q = {}
    try:
        q["pid"] = {"ok": obs_pl(v.phases_in_data)}
    except Exception as e:  # noqa
        q["pid"] = {"err": exn(e)}
    try:
        q["ori"] = {"ok": v.orientations.symmetry.name}
    except Exception as e:  # noqa
        q["ori"] = {"err": exn(e)}
    return q


def init_reference(pid, caller):
    """expected phases after construction, by the rule pinned by the documentation and
    the test-suite: same number of phases -> linked by list order; more phases ->
    phases whose id is absent from the data are dropped from the end until the
    numbers agree, then linked by order; fewer -> each id takes the phase with that id,
    a default phase otherwise; not_indexed at -1 iff -1 is in the data -- an entry of id
    -1 in the caller's list takes no part in the linking."""
    u = sorted(set(pid) - {-1})
    ni = [-1, {"n": "not_indexed", "g": None, "s": 0}]
    dflt = {"n": "", "g": None, "s": 0}
    if caller is None:
        out = [[i, dflt] for i in u]
    else:
        L = [e for e in caller if e[0] != -1]
        if len(L) > len(u):
            surplus = len(L) - len(u)
            drop = sorted([e[0] for e in L if e[0] not in u], reverse=True)[:surplus]
            L = [e for e in L if e[0] not in drop]
            out = [[i, e[1]] for i, e in zip(u, L)]
        elif len(L) == len(u):
            out = [[i, e[1]] for i, e in zip(u, L)]
        else:
            d = {e[0]: e[1] for e in L}
            out = [[i, d.get(i, dflt)] for i in u]
    return ([ni] if -1 in pid else []) + out


def check_invariant(views, after, rep, tag=""):
    """the state invariant of the property, on the implementation"""
    x = views[0]
    ids = [int(i) for i in x.phases.ids]
    ok_entries = True
    if not strictly_sorted(ids):
        fail(f"inv:sorted:after={after}", f"phase ids not sorted/unique: {ids}", rep)
        return False
    present = sorted(set(int(i) for i in x._phase_id))
    if not set(present) <= set(ids):
        ok_entries = False
        fail(f"inv:entry-missing:after={after}{tag}",
             f"phase ids {sorted(set(present) - set(ids))} are in the data but have no entry in the phase list {ids}", rep)
    bad = [(int(i), p.name) for i, p in x.phases if (p.name == "not_indexed") != (int(i) == -1)]
    if bad:
        fail(f"inv:not_indexed:after={after}{tag}", f"'not_indexed' <-> id -1 broken: {bad}", rep)
    if not ok_entries or bad:
        return False        # later failures of this program would only be consequences
    for vi, v in enumerate(views):
        vp = sorted(set(int(i) for i in v.phase_id))
        if not vp:
            continue
        names = list(x.phases.names)
        single = len(vp) == 1
        dup = single and names.count(x.phases[vp[0]].name) > 1
        try:
            got = [int(i) for i in v.phases_in_data.ids]
        except Exception as e:  # noqa
            got = exn(e)
        if got != vp:
            fail(f"phases_in_data:ids:single={int(single)}:dupname={int(dup)}",
                 f"phases_in_data.ids = {got} but the ids present are {vp} (phase names {names})", rep)
        if single:
            ph = x.phases[vp[0]]
            exp = "TypeError" if ph.point_group is None else ph.point_group.name
            try:
                got = v.orientations.symmetry.name
            except Exception as e:  # noqa
                got = exn(e)
            if got != exp:
                fail("orientations:point-group", f"single-phase selection of phase {vp[0]}: orientations "
                     f"carry {got}, the phase has {exp}", rep)
    return True


def run_map_case(c):
    rep = {"kind": "map", "pid": c["pid"], "pl": c["pl"], "plprep": c.get("plprep", []), "inview": c["inview"],
           "props": c["props"], "ops": c["ops"] or []}
    pid = np.array(c["pid"], dtype=int)
    n = pid.size
    caller = caller_before = None
    if c["pl"] is not None:
        caller, _ = build_pl(c["pl"])
        for o in c.get("plprep", []):
            if o == "addni":
                caller.add_not_indexed()
        caller_before = obs_pl(caller)
    c["caller"] = caller_before
    props = {k: dec_val({"t": "arr", **a}) for k, a in c["props"]}
    kw = {}
    if c["inview"] is not None:
        kw["is_in_data"] = np.array(c["inview"], dtype=bool)
    try:
        x = CrystalMap(rotations=Rotation.identity(n), phase_id=pid.copy(), phase_list=caller,
                       prop=props, **kw)
    except Exception as e:  # noqa
        c["init"] = {"err": exn(e)}
        c["steps"] = []
        c["ops"] = c["ops"] or []
        fail("init:raises", f"CrystalMap construction raises {exn(e)}: {e}", rep)
        return
    views = [x]
    c["init"] = {"ok": obs_state(views)}
    caller_eff = None if caller_before is None else [e for e in caller_before if e[0] != -1]
    strat = "none" if caller_before is None else (
        "more" if len(caller_eff) > len(set(c["pid"]) - {-1}) else
        "equal" if len(caller_eff) == len(set(c["pid"]) - {-1}) else "fewer")
    st(f"init/{strat}/ni={int(-1 in c['pid'])}")
    # ---- oracle on construction
    tag = ""
    if caller_before is not None and any(e[1]["n"] == "not_indexed" for e in caller_before):
        tag = ":caller-has-not_indexed"
    exp = init_reference(c["pid"], caller_before)
    if c["init"]["ok"]["phases"] != exp:
        fail(f"init:rule:{strat}{tag}", f"phases after construction {c['init']['ok']['phases']}, expected {exp}", rep)
    if caller is not None and obs_pl(caller) != caller_before:
        fail("init:caller-list-altered", f"caller's phase list changed from {caller_before} to {obs_pl(caller)}", rep)
    if caller_before is not None and strat == "fewer":
        kept = [e[1] for e in c["init"]["ok"]["phases"]]
        lost = [e for e in caller_eff if e[1] not in kept and e[1]["n"] != "not_indexed"]
        if lost:
            fail("init:fewer:caller-phase-dropped",
                 f"phase list with fewer phases than ids: caller's phases {lost} are dropped (linked by id, "
                 f"not by list order as documented); ids in data {sorted(set(c['pid']))}", rep)
    if c["init"]["ok"]["pid"] != c["pid"]:
        fail("init:phase_id-changed", "constructor changed the phase ids", rep)
    clean = check_invariant(views, "init", rep, tag)
    # ---- ops
    gen = c["ops"] is None
    ops = [] if gen else c["ops"]
    rep["ops"] = ops            # same list object: complete by the time it is emitted
    nops = R.choice([2, 3, 4, 5, 6, 8]) if gen else len(ops)
    steps = []
    for j in range(nops):
        if gen:
            o = rand_mapop(views)
            ops.append(o)
        else:
            o = ops[j]
        s = {"op": o}
        before = obs_state(views)
        v = views[o["v"]] if "v" in o else None
        okpre = True     # the op satisfies the side condition of the property
        try:
            if o["o"] == "select":
                if o["s"]["t"] == "names":
                    ks = o["s"]["v"]
                    nv = v[ks[0]] if len(ks) == 1 and o["s"].get("single") else v[tuple(ks)]
                else:
                    nv = v[np.array(o["s"]["v"], dtype=bool)]
                views.append(nv)
            elif o["o"] == "setpid":
                val = o["val"]
                known = set(e[0] for e in before["phases"]) | {-1}
                if val["t"] == "scalar":
                    okpre = val["v"] in known
                    v.phase_id = int(val["v"])
                else:
                    okpre = all(z in known for z in val["v"])
                    v.phase_id = np.array(val["v"], dtype=int)
            elif o["o"] == "setprop":
                if o.get("attr") and o["k"] in dict.keys(v._prop):
                    setattr(v, o["k"], dec_val(o["val"]))
                else:
                    v.prop[o["k"]] = dec_val(o["val"])
            elif o["o"] == "phadd":
                okpre = all(sp["n"] != "not_indexed" for sp in o["phases"])
                newp = [mk_phase(sp) for sp in o["phases"]]
                o["_phobs"] = [obs_phase(p) for p in newp]
                x.phases.add(newp)
            elif o["o"] == "phdel":
                k = o["k"]
                if k["t"] == "int":
                    okpre = k["v"] not in before["pid"]
                elif k["t"] == "str":
                    hit = [e[0] for e in before["phases"] if e[1]["n"] == k["v"]]
                    okpre = not hit or hit[0] not in before["pid"]
                if k["t"] == "other":
                    del x.phases[1.5]
                else:
                    del x.phases[k["v"]]
            elif o["o"] == "phaddni":
                x.phases.add_not_indexed()
            elif o["o"] == "phsort":
                x.phases.sort_by_id()
            s["exn"] = None
        except Exception as e:  # noqa
            s["exn"] = exn(e)
        after = obs_state(views)
        s["after"] = after
        if o["o"] in ("setpid", "setprop", "select") or R.random() < 0.3:
            qv = len(views) - 1 if o["o"] == "select" and not s["exn"] else o.get("v", 0)
            s["q"] = {"v": qv, **query(views[qv])}
        steps.append(s)
        kind = o["o"] + ("_" + o["val"]["t"] if "val" in o else "") + ("_" + o["s"]["t"] if "s" in o else "")
        st(f"map/{kind}" + ("/raises" if s["exn"] else ""))
        # ---------------- oracle
        if not okpre:
            clean = False       # outside the property's quantifier from here on
        if o["o"] == "select":
            if s["exn"]:
                fail(f"select:{o['s']['t']}:raises", f"selection raises {s['exn']}", rep)
            else:
                old, new = before["views"][o["v"]], after["views"][-1]
                if o["s"]["t"] == "names":
                    ks = o["s"]["v"]
                    name_of = {e[0]: e[1]["n"] for e in before["phases"]}
                    want = [b and ((name_of.get(p) in ks) or ("indexed" in ks and p != -1 and len(name_of) > 0))
                            for b, p in zip(old, before["pid"])]
                else:
                    it = iter(o["s"]["v"])
                    want = [b and next(it) for b in old]
                if new != want:
                    fail(f"select:{o['s']['t']}", f"selection {o['s']} of view {old}: got {new}, expected {want}", rep)
            if {k: after[k] for k in ("pid", "phases", "props")} != {k: before[k] for k in ("pid", "phases", "props")}:
                fail("select:mutates", "a selection changed the underlying map", rep)
        elif o["o"] == "setpid":
            val, mask = o["val"], before["views"][o["v"]]
            cnt = sum(mask)
            vals = None
            if val["t"] == "scalar":
                vals = [val["v"]] * cnt
            elif len(val["v"]) == cnt:
                vals = list(val["v"])
            elif len(val["v"]) == 1:
                vals = val["v"] * cnt
            if vals is None:
                if not s["exn"] or after != before:
                    fail("set_phase_id:bad-length-accepted", "array of the wrong length accepted or state changed", rep)
            else:
                it = iter(vals)
                want = [next(it) if b else p for b, p in zip(mask, before["pid"])]
                if after["pid"] != want:
                    fail(f"set_phase_id:{val['t']}:frame", f"phase ids after assignment {after['pid']}, expected exactly "
                         f"the selected points changed: {want}", rep)
                if s["exn"] and okpre:
                    fail(f"set_phase_id:{val['t']}:raises-after-assigning:n={'0' if cnt == 0 else '1' if cnt == 1 else 'many'}",
                         f"assigning {val} to a selection of {cnt} points raises {s['exn']} "
                         f"(phase ids before {before['pid']}, after {after['pid']})", rep)
        elif o["o"] == "setprop":
            val, mask, k = o["val"], before["views"][o["v"]], o["k"]
            cnt = sum(mask)
            oldp = dict((a, b) for a, b in before["props"]).get(k)
            newp = dict((a, b) for a, b in after["props"]).get(k)
            vals = None
            if val["t"] == "scalar":
                vals = [val["v"]] * cnt
            elif len(val["v"]) == cnt:
                vals = list(val["v"])
            elif len(val["v"]) == 1:
                vals = val["v"] * cnt
            if vals is None:
                if not s["exn"]:
                    fail("set_prop:bad-length-accepted", "array of the wrong length accepted", rep)
            elif s["exn"] or newp is None:
                fail("set_prop:raises", f"property assignment raises {s['exn']}", rep)
            else:
                num = lambda d, z: z / 4 if d == "f" else z  # noqa
                oldnum = [0.0] * n if oldp is None else [num(oldp["d"], z) for z in oldp["v"]]
                newnum = [num(newp["d"], z) for z in newp["v"]]
                it = iter(vals)
                want = [num(val["d"], next(it)) if b else z for b, z in zip(mask, oldnum)]
                if newnum != want:
                    od = "new" if oldp is None else oldp["d"]
                    inside = all(a == b for a, b, m in zip(newnum, want, mask) if m)
                    fail(f"set_prop:frame:{od}->{newp['d']}:{'outside' if inside else 'inside'}-changed",
                         f"property '{k}' {oldnum} assigned {val} through selection {mask}: got {newnum}, expected "
                         f"exactly the selected points changed: {want}", rep)
            if after["pid"] != before["pid"] or after["phases"] != before["phases"]:
                fail("set_prop:touches-phases", "property assignment changed phase ids or phases", rep)
        if clean:
            clean = check_invariant(views, kind, rep)
    c["ops"] = ops
    c["steps"] = steps
    c["final"] = [{"v": i, **query(v)} for i, v in enumerate(views)]


def rand_mapop(views):
    x = views[0]
    vi = R.randrange(len(views))
    v = views[vi]
    ids = [int(i) for i in x.phases.ids]
    names = list(x.phases.names)
    o = R.choice(["select", "select", "select", "setpid", "setpid", "setpid", "setpid", "setprop", "setprop",
                  "phadd", "phdel", "phaddni", "phsort"])
    if o == "select":
        if R.random() < 0.5:
            k = R.choice([1, 1, 1, 2, 3])
            ks = [R.choice(names + names + ["indexed", "not_indexed", "zzz"]) for _ in range(k)]
            return {"o": "select", "v": vi, "s": {"t": "names", "v": ks, "single": R.random() < 0.5}}
        p = R.choice([0.2, 0.5, 0.8])
        return {"o": "select", "v": vi, "s": {"t": "mask", "v": [R.random() < p for _ in range(v.size)]}}
    if o == "setpid":
        pool = ids + ids + [-1, -1]
        if R.random() < 0.06:
            pool = pool + [R.randrange(0, 9)]       # now and then an unknown id (outside the quantifier)
        if R.random() < 0.5:
            return {"o": "setpid", "v": vi, "val": {"t": "scalar", "v": R.choice(pool)}}
        ln = v.size
        r = R.random()
        if r < 0.08:
            ln = 1
        elif r < 0.16:
            ln = max(0, v.size + R.choice([-1, 1, 2]))
        if R.random() < 0.4:
            pool = [i for i in ids] or [-1]          # arrays of listed ids only
        return {"o": "setpid", "v": vi, "val": {"t": "arr", "v": [R.choice(pool) for _ in range(ln)]}}
    if o == "setprop":
        keys = list(dict.keys(x._prop))
        k = R.choice(keys + keys + ["new1", "new2"])
        d = R.choice(["i", "f"])
        rv = lambda: R.randrange(-9, 10) if d == "i" else R.randrange(-30, 31)  # noqa
        r = R.random()
        if r < 0.35:
            val = {"t": "scalar", "d": d, "v": rv()}
        else:
            ln = v.size if r < 0.9 else max(0, v.size + R.choice([-1, 1]))
            val = {"t": "arr", "d": d, "v": [rv() for _ in range(ln)]}
        return {"o": "setprop", "v": vi, "k": k, "val": val, "attr": R.random() < 0.5}
    if o == "phadd":
        specs = [rand_phase_spec() for _ in range(R.choice([1, 1, 2]))]
        if R.random() < 0.2 and names:
            specs[-1]["n"] = R.choice(names)
        for sp in specs:
            if sp["n"] is None and R.random() < 0.5:
                sp["n"] = R.choice(["x", "y", "z", "w"])
        return {"o": "phadd", "phases": specs}
    if o == "phdel":
        present = set(int(i) for i in x._phase_id)
        free = [i for i in ids if i not in present]
        t = R.choice(["int", "int", "str", "other"])
        if t == "int":
            pool = free + free + [R.randrange(-2, 9)] + (ids if R.random() < 0.1 else [])
            return {"o": "phdel", "k": {"t": "int", "v": R.choice(pool)}}
        if t == "str":
            fn = [x.phases[i].name for i in free]
            return {"o": "phdel", "k": {"t": "str", "v": R.choice(fn + fn + ["zzz"])}}
        return {"o": "phdel", "k": {"t": "other"}}
    return {"o": o}


def rand_pid(n):
    kind = R.choice(["contig", "sparse", "sparse", "with-1", "with-1", "only-1", "single"])
    if kind == "only-1":
        return [-1] * n, kind
    if kind == "single":
        return [R.choice([0, 0, 1, 4])] * n, kind
    k = R.choice([1, 2, 2, 3, 3, 4])
    pool = list(range(k)) if kind == "contig" else sorted(R.sample(range(0, 8), k))
    if kind == "with-1":
        pool = pool + [-1]
    return [R.choice(pool) for _ in range(n)], kind


def rand_map_case():
    n = R.choice([1, 2, 3, 4, 5, 6, 8, 10, 12])
    pid, kind = rand_pid(n)
    pl, prep = None, []
    r = R.random()
    if r > 0.2:
        while True:
            pl = rand_ctor()
            # lists that PhaseList() accepts, with names pairwise distinct or missing
            try:
                t, _ = build_pl(pl)
            except Exception:  # noqa
                continue
            if "not_indexed" in t.names:
                continue
            break
        if R.random() < 0.2:
            prep = ["addni"]
    inview = None
    if R.random() < 0.25:
        inview = [R.random() < 0.7 for _ in range(n)]
    props = []
    for k in R.sample(["iq", "dp", "ci"], R.choice([0, 1, 1, 2])):
        d = R.choice(["i", "f", "f"])
        props.append([k, {"d": d, "v": [R.randrange(-9, 10) if d == "i" else R.randrange(-30, 31) for _ in range(n)]}])
    return {"kind": "map", "pid": pid, "pl": pl, "plprep": prep, "inview": inview, "props": props, "ops": None,
            "stratum": kind}


# ---------------------------------------------------------------------- main
def run_case(c):
    if c["kind"] == "pl":
        run_pl_case(c)
    else:
        run_map_case(c)
    cases.append(c)


if ONLY is not None:
    for c in ONLY:
        run_case(c)
else:
    for k in range(N):
        if k % 3 == 0:
            c = {"kind": "pl", "ctor": rand_ctor(), "ops": None}
        else:
            c = rand_map_case()
        run_case(c)
    if EXH:
        # bounded-exhaustive construction: every id set x every phase-list id set (small universe)
        uni_d = [-1, 0, 1, 3]
        uni_l = [-1, 0, 1, 2, 3]
        for r_ in range(1, len(uni_d) + 1):
            for dset in itertools.combinations(uni_d, r_):
                for q_ in range(0, 4 if EXH == 1 else 5):
                    for lset in itertools.combinations(uni_l, q_):
                        if q_ == 0:
                            pl = None
                        else:
                            phs = [{"n": "not_indexed" if i == -1 else "p%d" % i, "g": PGS[(i + 1) % 10], "s": 0}
                                   for i in lset]
                            pl = {"how": "phases", "phases": phs, "ids": list(lset)}
                        c = {"kind": "map", "pid": list(dset) + [dset[-1]], "pl": pl, "plprep": [], "inview": None,
                             "props": [], "ops": [], "stratum": "exhaustive"}
                        run_case(c)


# ======================================================================
# Additional oracle strata (coverage audit): secondary entry points, keyword paths,
# value types and histories that the programs above never reach.  They are not part
# of the Coq correspondence (nothing is appended to `cases`); every stratum calls the
# real implementation and compares with a brute-force reference written here.
# All randomness from R, drawn AFTER the programs above (their replay is unchanged);
# parameter combinations are cycled deterministically.
# ======================================================================
def xrep(stratum, **kw):
    return {"kind": "x", "stratum": stratum, **kw}


def x_pl(ids, pgs=None, names=None, addni=False):
    """(ctor JSON, PhaseList) of named phases 'q<id>' at the given ids"""
    specs = [{"n": (names[j] if names else "q%d" % i), "g": (pgs[j] if pgs else PGS[(i + j) % 10]), "s": 0}
             for j, i in enumerate(ids)]
    ctor = {"how": "phases", "phases": specs, "ids": list(ids)}
    pl, _ = build_pl(copy.deepcopy(ctor))
    if addni:
        pl.add_not_indexed()
    return ctor, pl


def x_try(f):
    try:
        return ("ok", f())
    except Exception as e:  # noqa
        return ("err", exn(e))


def x_buildable_ctor():
    while True:
        c = rand_ctor()
        try:
            pl, _ = build_pl(copy.deepcopy(c))
        except Exception:  # noqa
            continue
        return c, pl


# ---------------------------------------------------------------- X1: PhaseList entry points
def x_phase_list_entries(m):
    for t in range(m):
        ctor, pl = x_buildable_ctor()
        before = obs_pl(pl)
        ids = [e[0] for e in before]
        names = [e[1]["n"] for e in before]
        rep = xrep("pl-entries", ctor=ctor)
        # (a) public accessors agree with the dictionary
        st("x/pl/accessors")
        got = {"ids": [int(i) for i in pl.ids], "names": list(pl.names), "size": int(pl.size),
               "pgs": [None if g is None else g.name for g in pl.point_groups],
               "sgs": [0 if g is None else int(g.number) for g in pl.space_groups],
               "iter": [[int(i), obs_phase(p)] for i, p in pl]}
        exp = {"ids": ids, "names": names, "size": len(ids), "pgs": [e[1]["g"] for e in before],
               "sgs": [e[1]["s"] for e in before], "iter": before}
        if got != exp:
            bad = [k for k in exp if got[k] != exp[k]]
            fail(f"pl:accessors:{bad[0]}", f"PhaseList.{bad[0]} = {got[bad[0]]} but the entries are {before}", rep)
        # (b) id_from_name
        for nm in sorted(set(names)) + ["zzz"]:
            st("x/pl/id_from_name")
            hit = [e[0] for e in before if e[1]["n"] == nm]
            exp = ("ok", hit[0]) if hit else ("err", "KeyError")
            got = x_try(lambda: int(pl.id_from_name(nm)))
            if got != exp:
                fail("pl:id_from_name", f"id_from_name({nm!r}) on {before}: expected {exp}, got {got}", {**rep, "name": nm})
        # (c) keys / deletions given as numpy integers behave as python integers; a single key returns the
        #     very Phase object of the list
        for i in ids[:3] + [R.randrange(-2, 9)]:
            for ty in (np.int64, np.int32):
                st("x/pl/index/npint")
                exp = ("ok", dict(before)[i]) if i in ids else ("err", "KeyError")
                got = x_try(lambda: obs_phase(pl[ty(i)]))
                if got != exp:
                    fail("pl:index:npint", f"pl[{ty.__name__}({i})] on {before}: expected {exp}, got {got}",
                         {**rep, "key": i, "type": ty.__name__})
            if i in ids:
                st("x/pl/index/identity")
                if pl[i] is not pl._dict[i] or (names.count(dict(before)[i]["n"]) == 1
                                                 and pl[dict(before)[i]["n"]] is not pl._dict[i]):
                    fail("pl:index:identity", f"pl[{i}] / pl[name] is not the Phase object held by the list", {**rep, "key": i})
        if len(ids) >= 2:
            st("x/pl/index/nparr-dtype")
            ks = ids[:2]
            for dt in (np.int32, np.int8):
                got = x_try(lambda: obs_pl(pl[np.array(ks, dtype=dt)]))
                exp = ("ok", [e for e in before if e[0] in ks])
                if got != exp:
                    fail("pl:index:nparr-dtype", f"pl[array({ks}, {dt.__name__})]: expected {exp}, got {got}", {**rep, "key": ks})
        for ty in (np.int64, np.int32):
            cp = pl.deepcopy()
            i = R.choice(ids + ids + [R.randrange(-2, 9)]) if ids else 3
            st("x/pl/del/npint")
            exp = ("ok", [e for e in before if e[0] != i]) if i in ids else ("err", "KeyError")

            def dele():
                del cp[ty(i)]
                return obs_pl(cp)
            got = x_try(dele)
            if got != exp:
                fail("pl:del:npint", f"del pl[{ty.__name__}({i})] on {before}: expected {exp}, got {got}",
                     {**rep, "key": i, "type": ty.__name__})
            # (d) deepcopy is independent
            st("x/pl/deepcopy")
            cp2 = pl.deepcopy()
            if obs_pl(cp2) != before:
                fail("pl:deepcopy:differs", f"deepcopy gives {obs_pl(cp2)}, list is {before}", rep)
            cp2.add(Phase("fresh-name", point_group="23"))
            if ids:
                cp2._dict[ids[0]].name = "renamed"
                cp2._dict[ids[0]].point_group = "4"
                del cp2[ids[-1]]
            if obs_pl(pl) != before:
                fail("pl:deepcopy:shared", f"changing a deepcopy changed the list: {before} -> {obs_pl(pl)}", rep)
        # (e) add(PhaseList): phases appended in the argument's id order with incremented ids; names checked
        mode = ["fresh", "fresh", "clash-present", "dup-in-arg"][t % 4]
        k = [1, 2, 3][(t // 4) % 3]
        onames = ["w%d" % j for j in range(k)]
        if mode == "clash-present" and names:
            onames[-1] = R.choice(names)
        oids = R.sample(range(0, 12), k)
        octor, other = x_pl(oids, names=onames, pgs=[PGS[(t + j) % 12] for j in range(k)])
        if mode == "dup-in-arg" and k >= 2:
            # a PhaseList argument whose phases share a name (reachable: names are not checked on construction)
            other._dict[sorted(oids)[-1]].name = onames[0] if sorted(oids)[0] != sorted(oids)[-1] else "w0"
            other._dict[sorted(oids)[0]].name = onames[0]
        oobs = obs_pl(other)
        tgt = pl.deepcopy()
        exp_l, clash = list(before), False
        for _, p in oobs:
            if p["n"] in [e[1]["n"] for e in exp_l]:
                clash = True
                break
            exp_l.append([max(e[0] for e in exp_l) + 1 if exp_l else 0, p])
        st(f"x/pl/add/phaselist/{mode}")
        got = x_try(lambda: tgt.add(other))
        rep2 = {**rep, "add_phase_list": oobs}
        if clash and got != ("err", "ValueError"):
            fail("pl:add:phaselist:present-name-accepted",
                 f"add(PhaseList {oobs}) to {before}: a name already present was not rejected ({got})", rep2)
        if not clash and got[0] == "err":
            fail("pl:add:phaselist:raises", f"add(PhaseList {oobs}) to {before} raises {got[1]}", rep2)
        if obs_pl(tgt) != exp_l:
            fail("pl:add:phaselist:entries", f"add(PhaseList {oobs}) to {before}: expected {exp_l}, got {obs_pl(tgt)}", rep2)
        if obs_pl(other) != oobs:
            fail("pl:add:phaselist:argument-altered", f"the added list changed from {oobs} to {obs_pl(other)}", rep2)
        if not strictly_sorted([e[0] for e in obs_pl(tgt)]) and strictly_sorted(ids):
            fail("pl:sorted:after=add-phaselist", f"ids not sorted/unique: {obs_pl(tgt)}", rep2)
        # (f) constructor from a single Phase, and ids given as ndarray
        sp = rand_phase_spec()
        for idv in (None, R.randrange(-1, 9)):
            st("x/pl/ctor/single-phase")
            ph = mk_phase(sp)
            exp = ("ok", [[0 if idv is None else idv, obs_phase(ph)]])
            got = x_try(lambda: obs_pl(PhaseList(ph) if idv is None else PhaseList(ph, ids=idv)))
            if got != exp:
                fail("pl:ctor:single-phase", f"PhaseList(Phase, ids={idv}): expected {exp}, got {got}",
                     xrep("pl-entries", phase=sp, ids=idv))
        if ctor["how"] == "phases" and ctor["ids"] is not None and ctor["phases"]:
            st("x/pl/ctor/ids-ndarray")
            ph = [mk_phase(s_) for s_ in ctor["phases"]]
            got = x_try(lambda: obs_pl(PhaseList(ph, ids=np.array(ctor["ids"], dtype=int))))
            if got != ("ok", before):
                fail("pl:ctor:ids-ndarray", f"ids as ndarray give {got}, as list {before}", rep)


# ---------------------------------------------------------------- X2: fields constructor, other keywords
def x_fields_ctor(m):
    from diffpy.structure import Structure
    from diffpy.structure.spacegroups import GetSpaceGroup
    sgl = sorted(SGS)
    for t in range(m):
        k = [1, 2, 3, 1, 4][t % 5]
        name_mode = ["list", "none", "short", "scalar"][t % 4]
        sg_mode = ["ints", "objs", "none", "scalar", "short"][(t // 2) % 5]
        pg_mode = ["none", "list", "scalar", "consistent"][(t // 3) % 4]
        st_mode = ["none", "titles", "titles-long"][(t // 5) % 3]
        id_mode = ["none", "list", "ndarray", "scalar", "short"][(t // 7) % 5]
        if "scalar" in (name_mode, sg_mode, pg_mode, id_mode):
            k = max(k, 1)
        names = {"list": ["n%d" % j for j in range(k)], "none": None, "short": ["n%d" % j for j in range(k - 1)] or None,
                 "scalar": "n0"}[name_mode]
        sgs = [sgl[(t + j) % len(sgl)] for j in range(k)]
        sgs = {"ints": sgs, "objs": sgs, "none": None, "scalar": sgs[0], "short": sgs[:k - 1] or None}[sg_mode]
        nsg = 0 if sgs is None else 1 if isinstance(sgs, int) else len(sgs)
        sgnum = lambda j: 0 if j >= nsg else (sgs if isinstance(sgs, int) else sgs[j])  # noqa
        if pg_mode == "none":
            pgs = None
        elif pg_mode == "scalar":
            pgs = SGS[sgnum(0)] if sgnum(0) else PGS[t % 10]
        else:       # a point group where there is no space group, the derived one where there is
            pgs = [(SGS[sgnum(j)] if sgnum(j) else PGS[(t + j) % 10]) if (pg_mode == "list" or sgnum(j)) else None
                   for j in range(k)]
        npg = 0 if pgs is None else 1 if isinstance(pgs, str) else len(pgs)
        pgname = lambda j: None if j >= npg else (pgs if isinstance(pgs, str) else pgs[j])  # noqa
        ns = {"none": 0, "titles": k, "titles-long": k + 1}[st_mode]
        titles = ["s%d" % j for j in range(ns)]
        idl = R.sample(range(0, 9), k)
        idv = {"none": None, "list": idl, "ndarray": idl, "scalar": idl[0], "short": idl[:k - 1] or None}[id_mode]
        kw = {}
        if names is not None:
            kw["names"] = names if isinstance(names, str) else list(names)
        if sgs is not None:
            kw["space_groups"] = ([GetSpaceGroup(g) for g in sgs] if sg_mode == "objs" else
                                  sgs if isinstance(sgs, int) else list(sgs))
        if pgs is not None:
            kw["point_groups"] = pgs if isinstance(pgs, str) else list(pgs)
        if ns:
            kw["structures"] = [Structure(title=ti) for ti in titles]
        if idv is not None:
            kw["ids"] = np.array(idv, dtype=int) if id_mode == "ndarray" else idv
        # reference
        nn = 0 if names is None else 1 if isinstance(names, str) else len(names)
        idg = [] if idv is None else [idv] if isinstance(idv, int) else list(idv)
        n = max(nn, nsg, npg, len(idg), ns)
        if idv is None:
            idg = list(range(n))
        out, extra_ = [], 0
        for j in range(n):
            if j < len(idg):
                key = idg[j]
            else:
                key = max(idg) + extra_ + 1
                extra_ += 1
            nm = (names if isinstance(names, str) else names[j]) if j < nn else (titles[j] if j < ns else "")
            g = SGS[sgnum(j)] if sgnum(j) else pgname(j)
            out.append((key, {"n": nm, "g": g, "s": sgnum(j)}))
        exp = ("ok", [[i, p] for i, p in ref_dict(out)])
        st(f"x/pl/ctor/fields/sg={sg_mode}/ids={id_mode}")
        got = x_try(lambda: obs_pl(PhaseList(**kw)))
        if got != exp:
            jk = {a: (b.tolist() if isinstance(b, np.ndarray) else [str(z.number) if hasattr(z, "number") else
                                                                      getattr(z, "title", z) for z in b]
                      if isinstance(b, list) else b) for a, b in kw.items()}
            if got[0] == "err":
                asp = "raises:scalar=" + "+".join(a for a, b in (("names", name_mode), ("sg", sg_mode), ("pg", pg_mode),
                                                                 ("ids", id_mode)) if b == "scalar")
            elif [e[0] for e in got[1]] != [e[0] for e in exp[1]]:
                asp = f"ids={id_mode}"
            elif [e[1]["n"] for e in got[1]] != [e[1]["n"] for e in exp[1]]:
                asp = f"names={name_mode}:struct={st_mode}"
            else:
                asp = f"symmetry:sg={sg_mode}:pg={pg_mode}"
            fail(f"pl:ctor:fields-alt:{asp}",
                 f"PhaseList({jk}): expected {exp}, got {got}", xrep("fields-ctor", kwargs=jk, t=t))


# ---------------------------------------------------------------- X3: map construction, other inputs
def x_caller(strat, u, t):
    """phase list JSON for the stratum (None | fewer | equal | more | more+ni) given the ids in the data"""
    if strat == "nolist":
        return None, None
    k = {"fewer": max(len(u) - 1, 0), "equal": len(u), "more": len(u) + 1 + t % 2, "more+ni": len(u) + 1}[strat]
    how = t % 3
    if how == 0 and all(i in range(8) for i in u):
        pool = sorted(set(u) | set(R.sample(range(0, 8), min(8, k))))    # ids overlapping the data
        ids = sorted(R.sample(pool, k))
    elif how == 1:
        ids = list(range(k))
    else:
        ids = sorted(R.sample(range(0, 10), k))
    return x_pl(ids, addni=(strat == "more+ni"))


def x_init_alt():
    modes = ["none", "float", "int8", "int32", "2d", "empty", "2d-none"]
    strats = ["nolist", "fewer", "equal", "more", "more+ni"]
    t = 0
    for mode in modes:
        for strat in strats:
            for _ in range(2):
                t += 1
                if mode == "empty" and strat != "nolist":
                    continue
                shape = R.choice([(2, 2), (2, 3), (3, 2), (3, 4)]) if mode in ("2d", "empty", "2d-none") else \
                    (R.choice([1, 2, 3, 5, 7]),)
                n = int(np.prod(shape))
                pid = [0] * n if mode in ("none", "empty", "2d-none") else rand_pid(n)[0]
                u = sorted(set(pid) - {-1})
                ctor, caller = x_caller(strat, u, t)
                cb = None if caller is None else obs_pl(caller)
                kw = {}
                if mode in ("2d", "2d-none"):
                    kw.update(create_coordinate_arrays(shape)[0])
                if mode not in ("none", "2d-none", "empty"):
                    kw["phase_id"] = np.array(pid, dtype={"float": float, "int8": np.int8, "int32": np.int32,
                                                          "2d": int}[mode])
                rep = xrep("init-alt", mode=mode, shape=list(shape), pid=pid, pl=ctor, addni=(strat == "more+ni"))
                st(f"x/init/{mode}/{strat}")
                try:
                    x = CrystalMap.empty(shape) if mode == "empty" else \
                        CrystalMap(Rotation.identity(n), phase_list=caller, **kw)
                except Exception as e:  # noqa
                    fail(f"init:alt:{mode}:raises", f"construction raises {exn(e)}: {e}", rep)
                    continue
                got, exp = obs_pl(x.phases), init_reference(pid, cb)
                if got != exp:
                    fail(f"init:alt:{mode}:rule:{strat}", f"phases after construction {got}, expected {exp} "
                         f"(ids {pid}, caller's list {cb})", rep)
                if [int(i) for i in x._phase_id] != pid or x._phase_id.dtype.kind != "i" or \
                        [int(i) for i in x.phase_id] != pid:
                    fail(f"init:alt:{mode}:phase_id", f"phase ids of the map {x._phase_id!r}, given {pid}", rep)
                if caller is not None and obs_pl(caller) != cb:
                    fail("init:caller-list-altered", f"caller's phase list changed from {cb} to {obs_pl(caller)}", rep)
                check_invariant([x], "init-alt", rep)


# ---------------------------------------------------------------- X4: queries on views
def x_quats(shape):
    return np.array([rand_unit_quat(R) for _ in range(int(np.prod(shape)))]).reshape(tuple(shape) + (4,))


def x_views(m):
    for t in range(m):
        two_d = t % 2 == 1
        krot = [None, 2, 3][t % 3]
        with_ni = (t // 2) % 2 == 0
        none_pg = t % 5 == 0
        shape = R.choice([(2, 3), (3, 3), (2, 4)]) if two_d else (R.choice([3, 4, 6, 9]),)
        n = int(np.prod(shape))
        nph = R.choice([1, 2, 3])
        ids = sorted(R.sample(range(0, 7), nph))
        pgs = [PGS[(t + j) % 10] for j in range(nph)]
        if none_pg:
            pgs[t % nph] = None
        base = ids + ([-1] if with_ni else [])
        pid = (base + [R.choice(base) for _ in range(n)])[:n]
        R.shuffle(pid)
        ids = sorted(set(pid) - {-1})           # n may be smaller than the number of ids drawn
        ctor, caller = x_pl(ids, pgs=pgs[:len(ids)])
        q = x_quats((n,) if krot is None else (n, krot))
        iq = np.array([R.randrange(-30, 31) / 4 for _ in range(n)])
        ci = np.array([R.randrange(-9, 10) for _ in range(n)])
        kw = create_coordinate_arrays(shape)[0] if two_d else {}
        rep = xrep("views", shape=list(shape), pid=pid, pl=ctor, rotations_per_point=krot or 1, selections=[])
        x = CrystalMap(Rotation(q), phase_id=np.array(pid), phase_list=caller, prop={"iq": iq.copy(), "ci": ci.copy()}, **kw)
        parr = np.array(pid)
        entries = dict(obs_pl(x.phases))
        name_id = {}
        for i, p in entries.items():
            name_id.setdefault(p["n"], i)
        views = [(x, np.ones(n, dtype=bool))]
        for j in range(4):
            pv, pm = views[R.randrange(len(views))]
            if pm.sum() == 0:
                continue
            how = ["mask", "name", "indexed", "name-tuple", "not_indexed"][(t + j) % 5]
            if how == "not_indexed" and -1 not in entries:
                how = "mask"
            if how == "mask":
                sel = np.array([R.random() < 0.6 for _ in range(int(pm.sum()))])
                cm = np.zeros(n, dtype=bool)
                cm[np.where(pm)[0]] = sel
                key = sel
            elif how in ("name", "name-tuple"):
                nms = R.sample(sorted(name_id), min(len(name_id), 1 if how == "name" else 2))
                cm = pm & np.isin(parr, [i for i, p in entries.items() if p["n"] in nms])
                key = nms[0] if how == "name" else tuple(nms)
            else:
                cm = pm & ((parr != -1) if how == "indexed" else (parr == -1))
                key = how
            rep["selections"].append({"from_view": [bool(b) for b in pm], "key": key.tolist() if how == "mask" else key})
            views.append((pv[key], cm))
        for v, mk in views:
            st(f"x/view/rot={krot or 1}/2d={int(two_d)}")
            rv = {**rep, "view": [bool(b) for b in mk]}
            if [bool(b) for b in v.is_in_data] != [bool(b) for b in mk]:
                fail("view:mask", f"selection is_in_data {v.is_in_data.astype(int)}, expected {mk.astype(int)}", rv)
                continue
            cnt = int(mk.sum())
            ci_got = [int(z) for z in v.ci]     # attribute access first: the shared property dict still holds
            #                                     the mask of the view queried before
            chk = [("size", int(v.size), cnt), ("id", [int(i) for i in v.id], [int(i) for i in np.where(mk)[0]]),
                   ("phase_id", [int(i) for i in v.phase_id], [int(i) for i in parr[mk]]),
                   ("is_indexed", [bool(b) for b in v.is_indexed], [bool(b) for b in parr[mk] != -1]),
                   ("all_indexed", bool(v.all_indexed), bool(np.all(parr[mk] != -1))),
                   ("prop-get:ci", ci_got, [int(z) for z in ci[mk]]),
                   ("prop-get:iq", [float(z) for z in v.prop["iq"]], [float(z) for z in iq[mk]]),
                   ("rotations", np.asarray(v.rotations.data), q[mk])]
            for nm, got, exp in chk:
                if nm == "rotations":
                    if got.shape == exp.shape and np.allclose(got, exp, atol=1e-12):
                        continue
                    got, exp = got.tolist(), exp.tolist()
                if got != exp:
                    fail(f"view:{nm}", f"{nm} of a selection: got {got}, expected {exp} (points in data {mk.astype(int)}, "
                         f"phase ids {pid})", rv)
            if cnt == 0:
                continue
            present = sorted(set(int(i) for i in parr[mk]))
            exp = ("ok", [[i, entries[i]] for i in present])
            got = x_try(lambda: obs_pl(v.phases_in_data))
            if got != exp:
                fail(f"phases_in_data:entries:single={int(len(present) == 1)}",
                     f"phases_in_data {got}, expected {exp}", rv)
            got = x_try(lambda: v.orientations)
            if len(present) > 1:
                if got != ("err", "ValueError"):
                    fail("orientations:many-phases-accepted", f"selection with phases {present}: orientations gives {got}", rv)
            elif entries[present[0]]["g"] is None:
                if got != ("err", "TypeError"):
                    fail("orientations:no-point-group", f"phase {present[0]} has no point group: orientations gives {got}", rv)
            elif got[0] == "err":
                fail("orientations:raises", f"single-phase selection (phase {present[0]}): orientations raises {got[1]}", rv)
            else:
                o = got[1]
                expq = q[mk] if krot is None else q[mk][:, 0]
                if o.symmetry.name != entries[present[0]]["g"]:
                    fail("orientations:point-group", f"single-phase selection of phase {present[0]}: orientations carry "
                         f"{o.symmetry.name}, the phase has {entries[present[0]]['g']}", rv)
                if tuple(o.shape) != (cnt,) or not np.allclose(o.data, expq, atol=1e-12):
                    fail(f"orientations:data:rot={krot or 1}", f"orientations of a selection of {cnt} points: shape {o.shape}, "
                         f"data differ from the (first) rotations of the selected points", rv)


# ---------------------------------------------------------------- X5: phase_id assignment, value types
def x_setpid_types():
    vts = ["list", "tuple", "npint64", "npint32", "arr0d", "pyfloat", "int8arr", "floatarr", "len1list"]
    t = 0
    for vt in vts:
        for neg in (0, 1):
            for via_sel in (0, 1):
                for ni_listed in (0, 1):
                    t += 1
                    n = R.choice([3, 4, 5, 6])
                    ids = sorted(R.sample(range(0, 6), 2))
                    base = ids + ([-1] if ni_listed else [])
                    pid = (base + [R.choice(base) for _ in range(n)])[:n]
                    R.shuffle(pid)
                    ctor, caller = x_pl(ids)
                    x = CrystalMap(Rotation.identity(n), phase_id=np.array(pid), phase_list=caller)
                    before = obs_pl(x.phases)
                    listed = [e[0] for e in before]
                    mk = np.ones(n, dtype=bool)
                    if via_sel:
                        while True:
                            mk = np.array([R.random() < 0.5 for _ in range(n)])
                            if 0 < mk.sum():
                                break
                    v = x[mk] if via_sel else x
                    cnt = int(mk.sum())
                    scalar = vt in ("npint64", "npint32", "arr0d", "pyfloat", "len1list")
                    pool = [i for i in listed if i != -1]
                    if scalar:
                        vals = [-1 if neg else R.choice(pool)] * cnt
                        z = vals[0]
                        val = {"npint64": np.int64(z), "npint32": np.int32(z), "arr0d": np.array(z), "pyfloat": float(z),
                               "len1list": [z]}[vt]
                    else:
                        vals = [R.choice(pool) for _ in range(cnt)]
                        if neg:
                            vals[R.randrange(cnt)] = -1
                        val = {"list": list(vals), "tuple": tuple(vals), "int8arr": np.array(vals, dtype=np.int8),
                               "floatarr": np.array(vals, dtype=float)}[vt]
                    rep = xrep("setpid-types", pid=pid, pl=ctor, selection=[bool(b) for b in mk], via_selection=bool(via_sel),
                               value_type=vt, value=[vals[0]] if scalar else vals)
                    st(f"x/setpid/{vt}/sel={via_sel}")

                    def assign():
                        v.phase_id = val
                    got = x_try(assign)
                    sig = f"set_phase_id:valtype={vt}"
                    if got[0] == "err":
                        fail(f"{sig}:raises", f"assigning {val!r} ({vt}) to {cnt} points raises {got[1]}", rep)
                    want = list(pid)
                    for j, z in zip(np.where(mk)[0], vals):
                        want[j] = z
                    now = [int(i) for i in x._phase_id]
                    if now != want:
                        fail(f"{sig}:frame", f"phase ids after assignment {now}, expected exactly the selected points "
                             f"changed: {want}", rep)
                    exp = before if (-1 in listed or not neg) else [[-1, {"n": "not_indexed", "g": None, "s": 0}]] + before
                    if obs_pl(x.phases) != exp:
                        fail(f"{sig}:phase-list" + (":not_indexed-missing" if -1 not in x.phases.ids and neg else ""),
                             f"phase list after assigning {val!r}: {obs_pl(x.phases)}, expected {exp}", rep)
                    elif got[0] == "ok" and now == want:
                        check_invariant([x, v], "setpid-" + vt, rep)


# ---------------------------------------------------------------- X6: property assignment, value kinds
def x_setprop_kinds():
    kinds = ["bool-arr", "bool-scalar", "list-int", "list-float", "list-bool", "f32-arr", "i32-arr", "i8-scalar",
             "len1-list", "2d-arr", "2d-scalar", "2d-new-full"]
    olds = ["i", "f", "b", "new"]
    t = 0
    for kind in kinds:
        for via_sel in (0, 1):
            for old in olds:
                t += 1
                two = kind.startswith("2d")
                if two and (old in ("b", "new")) != (kind == "2d-new-full" and old == "new"):
                    continue
                if kind == "2d-new-full" and via_sel:
                    continue
                n = R.choice([2, 3, 4, 5, 7])
                pid = rand_pid(n)[0]
                mk = np.ones(n, dtype=bool)
                if via_sel:
                    while True:
                        mk = np.array([R.random() < 0.5 for _ in range(n)])
                        if 0 < mk.sum() < n or n == 1:
                            break
                cnt = int(mk.sum())
                w = 2 + t % 2
                oshape = (n, w) if two else (n,)
                if old == "new":
                    oarr = None
                elif old == "i":
                    oarr = np.array([R.randrange(-9, 10) for _ in range(int(np.prod(oshape)))]).reshape(oshape)
                elif old == "f":
                    oarr = np.array([R.randrange(-30, 31) / 4 for _ in range(int(np.prod(oshape)))]).reshape(oshape)
                else:
                    oarr = np.array([R.random() < 0.5 for _ in range(n)])
                ri = lambda: R.randrange(-9, 10)  # noqa
                rf = lambda: R.randrange(-30, 31) / 4  # noqa
                rb = lambda: R.random() < 0.5  # noqa
                if kind == "bool-arr":
                    ref = np.array([rb() for _ in range(cnt)]); val = ref.copy()
                elif kind == "bool-scalar":
                    z = rb(); ref = np.array([z] * cnt); val = z
                elif kind == "list-int":
                    ref = np.array([ri() for _ in range(cnt)]); val = [int(z) for z in ref]
                elif kind == "list-float":
                    ref = np.array([rf() for _ in range(cnt)]); val = [float(z) for z in ref]
                elif kind == "list-bool":
                    ref = np.array([rb() for _ in range(cnt)]); val = [bool(z) for z in ref]
                elif kind == "f32-arr":
                    ref = np.array([rf() for _ in range(cnt)]); val = ref.astype(np.float32)
                elif kind == "i32-arr":
                    ref = np.array([ri() for _ in range(cnt)]); val = ref.astype(np.int32)
                elif kind == "i8-scalar":
                    z = ri(); ref = np.array([z] * cnt); val = np.int8(z)
                elif kind == "len1-list":
                    z = rf(); ref = np.array([z] * cnt); val = [z]
                elif kind == "2d-arr":
                    ref = np.array([ri() for _ in range(cnt * w)]).reshape(cnt, w); val = ref.copy()
                elif kind == "2d-scalar":
                    z = ri(); ref = np.full((cnt, w), z); val = z
                else:
                    ref = np.array([rf() for _ in range(n * w)]).reshape(n, w); val = ref.copy()
                prop = {} if oarr is None else {"p": oarr.copy()}
                x = CrystalMap(Rotation.identity(n), phase_id=np.array(pid), prop=prop)
                v = x[mk] if via_sel else x
                attr = oarr is not None and t % 2 == 0
                rep = xrep("setprop-kinds", pid=pid, selection=[bool(b) for b in mk], via_selection=bool(via_sel),
                           old=None if oarr is None else oarr.tolist(), value_kind=kind, value=ref.tolist(),
                           by_attribute=attr)
                st(f"x/setprop/{kind}/sel={via_sel}")
                pl_before = obs_pl(x.phases)

                def assign():
                    if attr:
                        setattr(v, "p", val)
                    else:
                        v.prop["p"] = val
                got = x_try(assign)
                sig = f"set_prop:alt:{kind}:old={old}"
                if got[0] == "err":
                    fail(f"{sig}:raises", f"assigning {val!r} to property 'p' ({None if oarr is None else oarr.tolist()}) of "
                         f"{cnt} points raises {got[1]}", rep)
                    continue
                new = np.asarray(dict.__getitem__(x._prop, "p"))
                o = np.zeros(new.shape) if oarr is None else oarr
                if new.shape != o.shape or not np.array_equal(new[mk], ref) or not np.array_equal(new[~mk], o[~mk]):
                    inside = new.shape == o.shape and np.array_equal(new[mk], ref)
                    fail(f"{sig}:frame:{'outside' if inside else 'inside'}-changed",
                         f"property {o.tolist()} assigned {ref.tolist()} through selection {mk.astype(int)}: got "
                         f"{new.tolist()} ({new.dtype}), expected exactly the selected points changed", rep)
                back = np.asarray(v.prop["p"])
                if back.shape != ref.shape or not np.array_equal(back, ref) or not np.array_equal(np.asarray(v.p), ref):
                    fail(f"{sig}:read-back", f"reading the property through the selection gives {back.tolist()}, "
                         f"assigned {ref.tolist()}", rep)
                if [int(i) for i in x._phase_id] != pid or obs_pl(x.phases) != pl_before:
                    fail("set_prop:touches-phases", "property assignment changed phase ids or phases", rep)


# ---------------------------------------------------------------- X7: phases setter guard
def x_phases_setter():
    t = 0
    for via_sel in (0, 1):
        for delta in (-2, -1, 0, 1):
            for with_ni in (0, 1):
                t += 1
                n = R.choice([4, 5, 6, 8])
                ids = sorted(R.sample(range(0, 6), 3))
                base = ids + ([-1] if with_ni else [])
                pid = (base + [R.choice(base) for _ in range(n)])[:n]
                R.shuffle(pid)
                ctor, caller = x_pl(ids)
                x = CrystalMap(Rotation.identity(n), phase_id=np.array(pid), phase_list=caller)
                mk = np.ones(n, dtype=bool)
                if via_sel:
                    while True:
                        mk = np.array([R.random() < 0.5 for _ in range(n)])
                        if mk.sum() > 0:
                            break
                v = x[mk] if via_sel else x
                u = len(set(np.array(pid)[mk].tolist()))
                k = u + delta
                if k < 0:
                    continue
                nctor, newl = x_pl(list(range(10, 10 + k)))
                old_list, old_obs = v.phases, obs_pl(v.phases)
                rep = xrep("phases-setter", pid=pid, pl=ctor, selection=[bool(b) for b in mk], new_list=nctor)
                st(f"x/phases-setter/sel={via_sel}/delta={delta}")

                def assign():
                    v.phases = newl
                got = x_try(assign)
                if k < u:
                    if got != ("err", "ValueError") or v.phases is not old_list or obs_pl(v.phases) != old_obs:
                        fail("set_phases:guard:fewer-accepted", f"{u} unique phase ids in the data, a list of {k} phases "
                             f"was assigned: {got}", rep)
                else:
                    if got[0] == "err" or v.phases is not newl:
                        fail("set_phases:guard:enough-rejected", f"{u} unique phase ids in the data, assigning a list of "
                             f"{k} phases gives {got}", rep)
                if [int(i) for i in x._phase_id] != pid:
                    fail("set_phases:touches-phase-ids", "assigning a phase list changed the phase ids", rep)


# ---------------------------------------------------------------- X8: independence (caller's list, deep copy)
def x_independence():
    strats = ["fewer", "equal", "more", "more+ni"]
    for t in range(16):
        strat = strats[t % 4]
        n = R.choice([3, 4, 6])
        pid = rand_pid(n)[0]
        u = sorted(set(pid) - {-1})
        ctor, caller = x_caller(strat, u, t)
        cb = obs_pl(caller)
        rep = xrep("independence", pid=pid, pl=ctor, addni=(strat == "more+ni"))
        x = CrystalMap(Rotation.identity(n), phase_id=np.array(pid), phase_list=caller,
                       prop={"iq": np.arange(n, dtype=float)})
        st(f"x/independence/caller/{strat}")
        mine = [id(p) for _, p in caller]
        if any(id(p) in mine for _, p in x.phases) or x.phases is caller:
            fail("init:caller-list-shared:objects", "the map's phase list holds the caller's Phase objects (no deep copy)", rep)
        xb = obs_pl(x.phases)
        for j, (_, p) in enumerate(x.phases):
            if p.name != "not_indexed":
                p.name = "changed%d" % j
                p.point_group = "3"
        x.phases.add(Phase("added-to-map"))
        if obs_pl(caller) != cb:
            fail("init:caller-list-shared:map->caller", f"changing the map's phases changed the caller's list: {cb} -> "
                 f"{obs_pl(caller)}", rep)
        x2 = CrystalMap(Rotation.identity(n), phase_id=np.array(pid), phase_list=caller)
        for j, (_, p) in enumerate(caller):
            p.name = "caller%d" % j
            p.point_group = "6"
        if caller.ids:
            del caller[caller.ids[-1]]
        caller.add(Phase("added-to-caller"))
        if obs_pl(x2.phases) != xb:
            fail("init:caller-list-shared:caller->map", f"changing the caller's list changed the map's phases: {xb} -> "
                 f"{obs_pl(x2.phases)}", rep)
        # deep copy of a map (and of a selection) is independent of the map
        st("x/independence/deepcopy")
        x3 = CrystalMap(Rotation.identity(n), phase_id=np.array(pid), prop={"iq": np.arange(n, dtype=float)})
        s0 = obs_state([x3])
        mk = np.array([(j + t) % 2 == 0 for j in range(n)])
        src = x3[mk] if t % 2 and mk.any() else x3
        y = src.deepcopy()
        lst = [int(i) for i in y.phases.ids if i != -1]
        newv = -1 if t % 4 < 2 or not lst else lst[0]
        y.phase_id = newv
        y.prop["iq"] = 99.0
        y.phases.add(Phase("added-to-copy"))
        if obs_state([x3]) != s0:
            fail("deepcopy:shares-state", f"changing a deepcopy changed the map: {s0} -> {obs_state([x3])}", rep)
        want = np.where(src.is_in_data, newv, np.array(pid))
        if [int(i) for i in y._phase_id] != [int(i) for i in want]:
            fail("deepcopy:set_phase_id:frame", f"phase ids of the copy {y._phase_id}, expected {want}", rep)
        check_invariant([y], "deepcopy-setpid", rep)


# ---------------------------------------------------------------- X9: 2D maps, slice/int selections, assignment
def x_bbox(mask2d):
    r = np.where(mask2d.any(axis=1))[0]
    c = np.where(mask2d.any(axis=0))[0]
    return slice(r.min(), r.max() + 1), slice(c.min(), c.max() + 1)


def x_rand_axis_key(ln, allow_int=True):
    k = R.choice(["all", "range", "range", "step", "int", "neg", "tail"])
    if k == "all" or ln == 1:
        return slice(None)
    if k == "range":
        a = R.randrange(0, ln)
        return slice(a, R.randrange(a + 1, ln + 1))
    if k == "step":
        return slice(R.choice([None, 0, 1]), None, 2)
    if k == "int" and allow_int:
        return R.randrange(0, ln)
    if k == "neg":
        return slice(-R.randrange(1, ln + 1), None)
    return slice(R.randrange(0, ln), None)


def x_key_json(key):
    return [[k.start, k.stop, k.step] if isinstance(k, slice) else int(k) for k in key]


def x_select2d(m):
    for t in range(m):
        shape = [(2, 2), (2, 3), (3, 2), (3, 4), (4, 3), (4, 5)][t % 6]
        n = shape[0] * shape[1]
        ids = sorted(R.sample(range(0, 6), 2))
        pid = (ids + [-1] + [R.choice(ids + [-1]) for _ in range(n)])[:n]
        R.shuffle(pid)
        ctor, caller = x_pl(sorted(set(pid) - {-1}))
        iq = np.array([R.randrange(-30, 31) / 4 for _ in range(n)])
        x = CrystalMap(Rotation.identity(n), phase_id=np.array(pid), phase_list=caller, prop={"iq": iq.copy()},
                       **create_coordinate_arrays(shape)[0])
        idx = np.arange(n).reshape(shape)
        v, mk = x, np.ones(shape, dtype=bool)
        keys = []
        depth = [1, 2, 1, 3][t % 4]
        ok = True
        for d in range(depth):
            bb = x_bbox(mk)
            ext = (bb[0].stop - bb[0].start, bb[1].stop - bb[1].start)
            form = ["pair", "row-only", "pair", "pair"][(t + d) % 4]
            key = (x_rand_axis_key(ext[0]),) if form == "row-only" else (x_rand_axis_key(ext[0]), x_rand_axis_key(ext[1]))
            sel = np.atleast_1d(idx[bb][key]).ravel()
            nm = mk & np.isin(idx, sel)
            if not nm.any():
                break                   # empty selections have no data extent to slice further
            keys.append(x_key_json(key))
            rep = xrep("select2d", shape=list(shape), pid=pid, pl=ctor, keys=list(keys))
            st(f"x/select2d/depth={d + 1}/{form}")
            got = x_try(lambda: v[key[0] if len(key) == 1 else key])
            if got[0] == "err":
                fail("select2d:raises", f"selection {keys} of a {shape} map raises {got[1]}", rep)
                ok = False
                break
            v, mk = got[1], nm
            if [bool(b) for b in v.is_in_data] != [bool(b) for b in mk.ravel()]:
                fail(f"select2d:mask:depth={d + 1}", f"selection {keys} of a {shape} map: points in data "
                     f"{v.is_in_data.astype(int).reshape(shape).tolist()}, expected {mk.astype(int).tolist()}", rep)
                ok = False
                break
        if not ok or v is x:
            continue
        rep = xrep("select2d", shape=list(shape), pid=pid, pl=ctor, keys=keys)
        fm = mk.ravel()
        cnt = int(fm.sum())
        if [int(i) for i in v.phase_id] != [int(i) for i in np.array(pid)[fm]]:
            fail("select2d:phase_id", f"phase ids of selection {keys}: {v.phase_id}, expected {np.array(pid)[fm]}", rep)
        # assignments through the slice selection change exactly its points
        arr = t % 2 == 0
        newid = [R.choice(ids + [-1]) for _ in range(cnt)] if arr else [R.choice(ids + [-1])] * cnt
        newiq = [R.randrange(-30, 31) / 4 for _ in range(cnt)] if arr else [R.randrange(-30, 31) / 4] * cnt
        rep.update(assign_phase_id=newid, assign_iq=newiq, as_array=arr)
        st(f"x/select2d/assign/arr={int(arr)}")

        def assign():
            v.phase_id = np.array(newid) if arr else newid[0]
            v.iq = np.array(newiq) if arr else newiq[0]
        got = x_try(assign)
        if got[0] == "err":
            fail("select2d:assign:raises", f"assignment through selection {keys} raises {got[1]}", rep)
            continue
        wantp, wantq = np.array(pid), iq.copy()
        wantp[fm], wantq[fm] = newid, newiq
        if [int(i) for i in x._phase_id] != [int(i) for i in wantp]:
            fail("select2d:set_phase_id:frame", f"phase ids after assigning {newid} through {keys}: "
                 f"{x._phase_id.tolist()}, expected {wantp.tolist()}", rep)
        elif not np.array_equal(dict.__getitem__(x._prop, "iq"), wantq):
            fail("select2d:set_prop:frame", f"property after assigning {newiq} through {keys}: "
                 f"{dict.__getitem__(x._prop, 'iq').tolist()}, expected {wantq.tolist()}", rep)
        else:
            check_invariant([x, v], "select2d-assign", rep)


if ONLY is None and P.get("extra", 1):
    from common import rand_unit_quat
    from orix.crystal_map import create_coordinate_arrays
    big = 1 if N <= 1000 else 4
    x_phase_list_entries(40 * big)
    x_fields_ctor(70 * big)
    for _ in range(big):
        x_init_alt()
        x_setpid_types()
        x_setprop_kinds()
        x_phases_setter()
        x_independence()
    x_views(36 * big)
    x_select2d(48 * big)

emit({"cases": cases, "fails": fails, "strata": strata})
