"""C14 implementation harness: builds real CrystalMaps (/repo working tree),
writes them with the .ang writer and loads the file again with the .ang reader.

For the Coq correspondence it records (a) the map exactly as the writer sees it,
(b) the tokens of the file orix wrote and (c) the map orix loaded from it.
The oracle checks every clause of property C14 directly on the
implementation against an independent numpy computation.
"""
import math
import os
import re
import tempfile
from decimal import Decimal

import numpy as np
from common import emit, payload, rand_unit_quat, rng

from diffpy.structure import Lattice, Structure
from orix import io
from orix.crystal_map import CrystalMap, Phase, PhaseList, create_coordinate_arrays
from orix.quaternion import Rotation
from orix.quaternion.symmetry import _groups, point_group_aliases

P = payload()
R = rng(P.get("seed", 0))
N = P.get("n", 200)
ONLY = P.get("only")
TMP = P.get("tmp") or tempfile.mkdtemp(prefix="c14_")
os.makedirs(TMP, exist_ok=True)

cases, fails, strata = [], [], {}


def st(k):
    strata[k] = strata.get(k, 0) + 1


def fail(sig, what, spec):
    fails.append({"sig": sig, "what": what, "replay": {"spec": spec}})


GROUP_NAMES = [g.name for g in _groups]
PROPER = {g.name: g.proper_subgroup.name for g in _groups}

# ------------------------------------------------------------------ generator
STEPS_EXACT = [1.0, 1.5, 0.25, 0.1, 2.0, 0.05, 10.0, 1234.5]
STEPS_INEXACT = [0.123456789, 1 / 3, 0.7000004, 2.718281828]
NAMES_PLAIN = ["austenite", "ferrite", "Al", "Fe-bcc", "sigma_2", "Ni3Al", "a", "ZrO2", "(Ti,Nb)C", "b.c"]
NAMES_BLANK = ["my phase", "iron alpha", "a b c", " lead", "x  y"]
IQ_NAMES = ["iq", "IQ", "image_quality", "Imagequality"]
CI_NAMES = ["ci", "CI", "confidence_index", "scores", "Correlation"]
DS_NAMES = ["ss", "detector_signal", "SEM_signal", "ds"]
FIT_NAMES = ["fit", "pattern_fit", "Fit"]
OTHER_NAMES = ["dp", "bands", "my prop", "err", "nmatch", "iq2", "x_shift"]


def rand_lattice():
    k = R.choice(["cubic", "hex", "tetra", "ortho", "tri", "default"])
    a = round(R.uniform(0.2, 12), R.choice([1, 3, 4, 6]))
    b = round(R.uniform(0.2, 12), R.choice([1, 3, 4, 6]))
    c = round(R.uniform(0.2, 12), R.choice([1, 3, 4, 6]))
    if k == "default":
        return [1.0, 1.0, 1.0, 90.0, 90.0, 90.0]
    if k == "cubic":
        return [a, a, a, 90.0, 90.0, 90.0]
    if k == "hex":
        return [a, a, c, 90.0, 90.0, 120.0]
    if k == "tetra":
        return [a, a, c, 90.0, 90.0, 90.0]
    if k == "ortho":
        return [a, b, c, 90.0, 90.0, 90.0]
    return [a, b, c, round(R.uniform(80, 100), 4), round(R.uniform(80, 100), 4), round(R.uniform(80, 100), 4)]


def rand_value(kind):
    if kind == "unit":
        return R.random()
    if kind == "signed":
        return R.uniform(-5, 5)
    if kind == "big":
        return R.uniform(-1, 1) * 10 ** R.choice([3, 4, 6, 8])
    if kind == "int":
        return float(R.randint(-3, 2000))
    if kind == "tie":      # near half-way cases of the 5th decimal
        return R.randint(-300000, 300000) / 1e5 + R.choice([5e-6, -5e-6, 4.9999e-6])
    return R.choice([0.0, -1.0, 1.0, 180.0, 0.5, -0.5])


def rand_quat():
    k = R.random()
    if k < 0.08:
        return [1.0, 0.0, 0.0, 0.0]
    if k < 0.16:      # gimbal strata Phi = 0 / pi
        a = R.uniform(0, 2 * math.pi)
        return [math.cos(a / 2), 0.0, 0.0, math.sin(a / 2)] if R.random() < 0.5 else \
            [0.0, math.cos(a / 2), math.sin(a / 2), 0.0]
    return rand_unit_quat(R)


TINY = [("1dx", 1, 2), ("1dx", 1, 3), ("2d-unit", 1, 3), ("2d-unit", 1, 1), ("2d-unit", 3, 1),
        ("1dx", 1, 1), ("1dy", 2, 1), ("1dy", 3, 1), ("col2d", 2, 1), ("2d-unit", 2, 1)]


def rand_spec(stratum=None, tiny=None):
    stratum = stratum or R.choice(
        ["plain"] * 6 + ["masked"] * 5 + ["1d"] * 2 + ["tiny", "three-in-data", "one-in-data", "column",
                                                      "coarse-step", "blank-name", "ci-collision", "multi-layer",
                                                      "multi-layer", "kw", "kw", "kw-error", "big-coords"])
    sp = {"stratum": stratum}
    kind = "2d"
    nr, nc = R.choice([(2, 2), (2, 3), (3, 2), (3, 4), (4, 5), (2, 6), (5, 3), (1, 5), (4, 1)])
    if nr == 1 or nc == 1:
        kind = "2d-unit"
    dx = R.choice(STEPS_EXACT + STEPS_INEXACT[:2])
    dy = R.choice(STEPS_EXACT + STEPS_INEXACT[:2])
    if stratum == "1d":
        kind, nr, nc = "1dx", 1, R.choice([4, 5, 7, 12])
    if stratum == "tiny":
        kind, nr, nc = tiny or R.choice(TINY)
    if stratum == "column":
        kind, nr, nc = R.choice(["col2d", "1dy"]), R.choice([4, 5, 6]), 1
    if stratum == "coarse-step":
        nr, nc = R.choice([(2, 150), (3, 200), (130, 2)])
        dx = dy = R.choice([0.001004, 0.0010049, 0.002006])
    if stratum == "big-coords":
        nr, nc = R.choice([(3, 12), (12, 3)])
        dx, dy = R.choice([1234.5, 99999.5, 1e5]), R.choice([0.5, 1234.5])
    if kind == "2d-unit":
        kind = "2d"
    n = nr * nc
    sp.update(kind=kind, nr=nr, nc=nc, dx=dx, dy=dy)
    # mask
    mask = None
    if stratum in ("masked", "multi-layer", "kw") and R.random() < 0.7 or stratum == "masked":
        how = R.choice(["random", "rect", "row", "col"])
        if how == "random":
            mask = [R.random() < 0.7 for _ in range(n)]
        elif how == "rect" and nr > 1 and nc > 1:
            r0, r1 = sorted(R.sample(range(nr + 1), 2))
            c0, c1 = sorted(R.sample(range(nc + 1), 2))
            mask = [(r0 <= i // nc < r1) and (c0 <= i % nc < c1) for i in range(n)]
        elif how == "row":
            r0 = R.randrange(nr)
            mask = [i // nc == r0 for i in range(n)]
        else:
            c0 = R.randrange(nc)
            mask = [i % nc == c0 for i in range(n)]
        if mask is not None and sum(mask) == 0:
            mask[R.randrange(n)] = True
    if stratum == "three-in-data":
        if n < 4:
            nr, nc, n = 2, 3, 6
            sp.update(kind="2d", nr=nr, nc=nc)
        keep = R.sample(range(n), 3)
        mask = [i in keep for i in range(n)]
    if stratum == "one-in-data":
        if n < 4:
            nr, nc, n = 2, 3, 6
            sp.update(kind="2d", nr=nr, nc=nc)
        keep = R.randrange(n)
        mask = [i == keep for i in range(n)]
    sp["mask"] = mask
    # phases
    nph = R.choice([1, 1, 2, 2, 3])
    ids = sorted(R.sample(range(0, 9), nph)) if R.random() < 0.5 else list(range(nph))
    phases = []
    names = R.sample(NAMES_PLAIN, nph)
    for k, i in enumerate(ids):
        nm = names[k]
        if stratum == "blank-name" and (k == 0 or R.random() < 0.5):
            nm = R.choice(NAMES_BLANK)
        elif R.random() < 0.08:
            nm = ""
        pg = R.choice(GROUP_NAMES) if R.random() < 0.93 else None
        phases.append({"id": i, "name": nm, "pg": pg, "lat": rand_lattice()})
    sp["phases"] = phases
    p_ni = R.choice([0, 0, 0.15, 0.4]) if stratum != "ci-collision" else 0.1
    if R.random() < 0.03:
        p_ni = 1.0
    sp["pid"] = [-1 if R.random() < p_ni else R.choice(ids) for _ in range(n)]
    # rotations
    rpp = R.choice([2, 3]) if stratum == "multi-layer" or R.random() < 0.15 else 1
    sp["rpp"] = rpp
    sp["quat"] = [[rand_quat() for _ in range(rpp)] for _ in range(n)]
    # properties
    props = []
    used = set()

    def add_prop(name, multi=0, kind=None):
        if name in used:
            return
        used.add(name)
        kind = kind or R.choice(["unit", "unit", "signed", "big", "int", "tie", "special"])
        if multi:
            vals = [[rand_value(kind) for _ in range(multi)] for _ in range(n)]
        else:
            vals = [rand_value(kind) for _ in range(n)]
        props.append({"name": name, "multi": multi, "vals": vals, "kind": kind})

    layers = lambda: (R.choice([rpp, 2, 3]) if (rpp > 1 and R.random() < 0.6) else 0)  # noqa: E731
    if R.random() < 0.7:
        add_prop(R.choice(IQ_NAMES), layers())
    if R.random() < 0.7 or stratum == "ci-collision":
        add_prop(R.choice(CI_NAMES), layers(), kind=None if stratum != "ci-collision" else "special")
    if R.random() < 0.4:
        add_prop(R.choice(DS_NAMES), layers())
    if R.random() < 0.5:
        add_prop(R.choice(FIT_NAMES), layers())
    for _ in range(R.choice([0, 1, 2])):
        add_prop(R.choice(OTHER_NAMES), layers())
    sp["props"] = props
    # keywords
    kw = {"index": None, "iq": None, "ci": None, "ds": None, "fit": None, "extra": None}
    pnames = [p["name"] for p in props]
    if rpp > 1 and R.random() < 0.75:
        kw["index"] = R.choice([0, 1, rpp - 1, -1, -rpp])
    if stratum in ("kw", "multi-layer", "ci-collision") or R.random() < 0.25:
        for slot in ("iq", "ci", "ds", "fit"):
            if pnames and R.random() < 0.4:
                kw[slot] = R.choice(pnames)
            elif R.random() < 0.05:
                kw[slot] = ""
        if pnames and R.random() < 0.6:
            ex = R.sample(pnames, R.choice([1, min(2, len(pnames))]))
            kw["extra"] = ex[0] if (len(ex) == 1 and R.random() < 0.5) else ex
        elif R.random() < 0.1:
            kw["extra"] = []
    if stratum == "kw-error":
        what = R.choice(["missing", "index-1d", "index-range", "empty-extra"])
        if what == "missing":
            kw[R.choice(["iq", "ci", "ds", "fit"])] = "nosuchprop"
        elif what == "index-1d":
            sp["rpp"] = 1
            sp["quat"] = [[q[0]] for q in sp["quat"]]
            kw["index"] = 0
        elif what == "index-range":
            kw["index"] = sp["rpp"] + R.choice([0, 1])
        else:
            kw["extra"] = [""]
    sp["kw"] = kw
    return sp


# ------------------------------------------------------------------ build
def build(sp):
    nr, nc, kind = sp["nr"], sp["nc"], sp["kind"]
    n = nr * nc
    if kind == "2d":
        d, _ = create_coordinate_arrays((nr, nc), (sp["dy"], sp["dx"]))
        x, y = d["x"], d["y"]
    elif kind == "1dx":
        d, _ = create_coordinate_arrays((nc,), (sp["dx"],))
        x, y = d["x"], None
    elif kind == "col2d":
        x, y = np.zeros(n), np.arange(n) * sp["dy"]
    else:  # 1dy
        x, y = None, np.arange(n) * sp["dy"]
    q = np.array(sp["quat"], dtype=float)
    rot = Rotation(q[:, 0, :]) if sp["rpp"] == 1 else Rotation(q)
    ph = sp["phases"]
    pl = PhaseList(
        names=[p["name"] for p in ph],
        point_groups=[p["pg"] for p in ph],
        ids=[p["id"] for p in ph],
        structures=[Structure(lattice=Lattice(*p["lat"])) for p in ph],
    )
    prop = {}
    for p in sp["props"]:
        a = np.array(p["vals"], dtype=float)
        if p["kind"] == "int":
            a = a.astype(np.int64)
        prop[p["name"]] = a
    kw = {}
    if sp["mask"] is not None:
        kw["is_in_data"] = np.array(sp["mask"], dtype=bool)
    return CrystalMap(rotations=rot, phase_id=np.array(sp["pid"], dtype=int), x=x, y=y, phase_list=pl,
                      prop=prop, **kw)


def observe_map(xm, sp):
    nr, nc, kind = sp["nr"], sp["nc"], sp["kind"]
    rows, cols = (nr, nc) if kind == "2d" else ((1, nc) if kind == "1dx" else (nr, 1))
    rmulti = xm._rotations.ndim == 2
    eu = xm._rotations.to_euler()
    n = rows * cols
    eu = eu.reshape(n, -1, 3)
    phases = []
    for i, p in xm.phases:
        phases.append({"id": int(i), "name": p.name, "pg": None if p.point_group is None else p.point_group.name,
                       "lat": [float(v) for v in p.structure.lattice.abcABG()]})
    props = []
    for name in xm._prop.keys():
        a = dict.__getitem__(xm._prop, name)
        props.append({"name": name, "multi": a.ndim == 2, "vals": np.asarray(a, dtype=float).reshape(n, -1).tolist()})
    return {"rows": rows, "cols": cols, "dx": float(xm.dx), "dy": float(xm.dy),
            "in": [bool(b) for b in xm.is_in_data], "pid": [int(i) for i in xm._phase_id],
            "rmulti": bool(rmulti), "rots": eu.tolist(), "phases": phases, "props": props}


# ------------------------------------------------------------------ file tokens
def fix(tok, dec):
    d = Decimal(tok)
    assert -d.as_tuple().exponent == dec, tok
    return int(d.scaleb(dec))


def tokenize(path):
    header, rows = [], []
    grid = {}
    for line in open(path).read().split("\n"):
        if line.startswith("#"):
            t = line[2:] if line.startswith("# ") else line[1:]
            m = re.fullmatch(r"Phase (-?\d+)", t)
            if m:
                header.append(["P", int(m.group(1))])
            elif t.startswith("MaterialName    "):
                header.append(["M", t[len("MaterialName    "):]])
            elif t.startswith("Formula    "):
                header.append(["F", t[len("Formula    "):]])
            elif t.startswith("Symmetry    "):
                header.append(["S", t[len("Symmetry    "):]])
            elif t.startswith("LatticeConstants    "):
                header.append(["L", [fix(v, 3) for v in t[len("LatticeConstants    "):].split(" ")]])
            elif t.startswith("XSTEP: "):
                grid["x"] = fix(t[7:], 6)
                header.append(["G", grid])
            elif t.startswith("YSTEP: "):
                grid["y"] = fix(t[7:], 6)
            elif t.startswith("NCOLS_ODD: "):
                grid["nc"] = int(t[11:])
            elif t.startswith("NCOLS_EVEN: "):
                grid["nc2"] = int(t[12:])
            elif t.startswith("NROWS: "):
                grid["nr"] = int(t[7:])
            elif t.startswith("OPERATOR: orix"):
                header.append(["O", "OPERATOR: orix"])
            elif t.startswith("Column names: "):
                header.append(["C", t[len("Column names: "):].split(", ")])
            else:
                header.append(["O", t])
        elif line.strip():
            cells = []
            for j, tok in enumerate(line.split()):
                if j == 7:
                    cells.append(["I", int(tok)])
                else:
                    cells.append(["F", fix(tok, 5)])
            rows.append(cells)
    if grid:
        assert grid["nc"] == grid["nc2"]
    return {"header": header, "rows": rows}


def k5(v, what):
    k = round(float(v) * 1e5)
    if abs(float(v) - k / 1e5) > 1e-9 * max(1.0, abs(float(v))):
        raise AssertionError(f"{what}: {v!r} is not a 5-decimal number")
    return int(k)


def observe_loaded(xm2, toks, euler_ok):
    eul = [[c[1] for c in row[:3]] for row in toks["rows"]]
    if not euler_ok:
        eul = [[0, 0, 0] for _ in eul]
    phases = []
    for i, p in xm2.phases:
        phases.append({"id": int(i), "name": p.name, "pg": None if p.point_group is None else p.point_group.name,
                       "lat": [int(round(float(v) * 1000)) for v in p.structure.lattice.abcABG()]})
    props = [[name, [k5(v, name) for v in xm2.prop[name]]] for name in xm2.prop.keys()]
    return {"shape": [int(s) for s in xm2.shape], "dx": k5(xm2.dx, "dx"), "dy": k5(xm2.dy, "dy"),
            "pid": [int(i) for i in xm2.phase_id], "eul": eul, "props": props, "phases": phases,
            "unit": xm2.scan_unit}


# ------------------------------------------------------------------ oracle
DOC_DEFAULTS = [["iq", "imagequality"], ["ci", "confidenceindex", "scores", "correlation"],
                ["ds", "detectorsignal", "ss", "semsignal"], ["fit", "patternfit"]]


def norm(s):
    return s.lower().replace("_", "")


def f32_5(v):
    """5 decimals of the single-precision value of np.round(v, 5)"""
    return round(float(np.float32(np.round(v, 5))), 5)


def layer(a, index):
    a = np.asarray(a)
    if a.ndim == 1:
        return a
    return a[:, index if index else 0]


def oracle(xm, sp, kwargs, xm2, saved, loaded, exc):
    """property clauses, checked on the implementation only"""
    kw = sp["kw"]
    n_all = xm.is_in_data.size
    n_in = int(xm.is_in_data.sum())
    rpp = sp["rpp"]
    pnames = list(xm.prop.keys())
    # --- legitimate refusals (caller errors), not property failures
    legit = False
    for slot in ("iq", "ci", "ds", "fit"):
        if kw[slot] and kw[slot] not in pnames:
            legit = True
    extra = kw["extra"]
    extra = [extra] if isinstance(extra, str) else (extra or [])
    for e in extra:
        if e and e not in pnames:
            legit = True
    idx = kw["index"]
    if idx is not None and (rpp == 1 or not (-rpp <= idx < rpp)):
        legit = True
    if idx is not None:
        for p in sp["props"]:
            used_names = [kw[s] for s in ("iq", "ci", "ds", "fit")] + extra
            if p["multi"] and not (-p["multi"] <= idx < p["multi"]):
                legit = True      # a chosen or discovered multi-layer property without that layer
    if not saved:
        if legit:
            st("oracle/refused-caller-error")
            return
        if n_all <= 3:
            s = "size<=3"
        elif n_in == 3:
            s = "three-in-data"
        else:
            s = "other"
        fail(f"write-raises:{s}", f"saving a valid map raises {exc} (map of {n_all} points, {n_in} in data)", sp)
        return
    if not loaded:
        s = "single-row" if n_in == 1 or len(open(os.path.join(TMP, "t.ang")).read().strip().split("\n")) < 1 else "other"
        bbox = int(np.prod(xm.shape)) if xm.shape else 1
        s = "single-row" if bbox == 1 else "other"
        fail(f"read-raises:{s}", f"the file written for a valid map cannot be loaded: {exc}", sp)
        return
    # --- grid
    shape = tuple(int(s) for s in xm.shape)
    want_shape = tuple(s for s in shape if s > 1)
    coarse = False
    for stp, cnt in ((xm.dx, shape[-1] if shape else 1), (xm.dy, shape[0] if len(shape) == 2 else 1)):
        r5 = round(float(stp), 5)
        if cnt > 1 and (r5 <= 0 or cnt * abs(float(stp) - r5) >= 0.5 * r5 - 1e-12):
            coarse = True
    column = sp["kind"] in ("col2d", "1dy")
    gstr = "single-column" if column else ("coarse-step" if coarse else "other")
    if tuple(xm2.shape) != want_shape:
        fail(f"shape:{gstr}", f"map of shape {shape} comes back with shape {tuple(xm2.shape)}", sp)
        return
    if len(shape) == 2:
        steps = [("dy", xm.dy, xm2.dy, shape[0]), ("dx", xm.dx, xm2.dx, shape[1])]
    elif len(shape) == 0:      # a single point: no step to preserve
        steps = []
    else:
        steps = [("dx", xm.dx, xm2.dx, shape[0])] if not column else [("dy", xm.dy, xm2.dy, shape[0])]
    for nm, a, b, cnt in steps:
        if cnt > 1 and abs(round(float(a), 5) - float(b)) > 1e-9:
            fail(f"step:{gstr}", f"step size {nm}={a} comes back as {b}", sp)
    # --- per point data in the bounding box
    ind_map = xm.get_map_data(xm.is_indexed, fill_value=False).reshape(-1).astype(bool)
    got_ind = np.asarray(xm2.is_indexed)
    if got_ind.size != ind_map.size:
        fail("size:other", f"{ind_map.size} points written, {got_ind.size} read", sp)
        return
    # which property feeds the four standard columns (documented defaults) + extras
    chosen = []
    for slot, cands in zip(("iq", "ci", "ds", "fit"), DOC_DEFAULTS):
        name = kw[slot]
        if not name:
            name = None
            for c in cands:
                hit = [p for p in pnames if norm(p) == c]
                if hit:
                    name = hit[0]
                    break
        chosen.append(name)
    std = ["iq", "ci", "detector_signal", "fit"]
    sentinels = [0.0, -1.0, 0.0, 180.0]
    ids_in = np.full(n_all, -2)
    ids_in[xm.is_in_data] = np.arange(n_in)
    box = xm.get_map_data(ids_in.astype(float)[xm.is_in_data], fill_value=-2).reshape(-1).astype(int)
    # indexed pattern
    ci_written = np.asarray(xm2.prop["ci"]) if "ci" in xm2.prop else None
    bad = np.nonzero(got_ind != ind_map)[0]
    if bad.size:
        k = int(bad[0])
        s = "ci=-1" if (ind_map[k] and ci_written is not None and ci_written[k] == -1) else "other"
        if "ci" in [e.lstrip(" ").replace(" ", "_") for e in extra]:
            s = "extra-named-ci"
        fail(f"indexed:{s}", f"point {k} of the written grid: indexed={bool(ind_map[k])} comes back as {bool(got_ind[k])}", sp)
        return
    # rotations
    rot = xm.rotations
    if rot.ndim == 2:
        rot = rot[:, idx if idx is not None else 0]
    want_eu = np.round(rot.to_euler(), 5)
    want_q = Rotation.from_euler(want_eu).data
    got_q = xm2.rotations.data
    fourpi = Rotation.from_euler(np.array([12.56637] * 3)).data.reshape(-1)
    for k in range(box.size):
        w = want_q[box[k]] if ind_map[k] else fourpi
        if abs(abs(float(np.dot(w, got_q[k]))) - 1) > 1e-9:
            fail("rotation:" + ("indexed" if ind_map[k] else "sentinel"),
                 f"point {k}: rotation read {got_q[k].tolist()} is not the written 5-decimal Euler angles", sp)
            break
    # property columns
    cols = [(std[j], chosen[j], sentinels[j], "std") for j in range(4)]
    for e in extra:
        cols.append((e.lstrip(" ").replace(" ", "_"), e if e else None, 0.0, "extra"))
    seen = {}
    for cname, src, sent, typ in cols:
        seen[cname] = (src, sent, typ)       # a later column of the same name overwrites
    for cname, (src, sent, typ) in seen.items():
        if cname in ("euler1", "euler2", "euler3", "x", "y", "phase_id"):
            continue
        if cname not in xm2.prop:
            fail(f"prop-missing:{typ}", f"column {cname!r} does not come back as a property", sp)
            continue
        got = np.asarray(xm2.prop[cname], dtype=float)
        try:
            vals = None if src is None else layer(xm.prop[src], idx)
        except IndexError:
            continue      # the property has no such layer (the writer did not use it either)
        for k in range(box.size):
            if ind_map[k]:
                w = 0.0 if vals is None else f32_5(vals[box[k]])
            else:
                w = sent
            if abs(got[k] - w) > 1e-9 * max(1.0, abs(w)):
                s = typ
                if typ == "std" and src is not None and not kw[dict(zip(std, ("iq", "ci", "ds", "fit")))[cname]]:
                    s = "default-" + norm(src)
                fail(f"prop:{s}:" + ("indexed" if ind_map[k] else "sentinel"),
                     f"column {cname!r} (from property {src!r}) point {k}: read {got[k]!r}, expected {w!r}", sp)
                break
    # phases
    real = [(i, p) for i, p in xm.phases if i != -1]
    pos = {i: k + 1 for k, (i, _) in enumerate(real)}
    pid_map = xm.get_map_data("phase_id", fill_value=-1).reshape(-1).astype(int)
    want_pid = np.array([pos[int(pid_map[k])] if ind_map[k] else -1 for k in range(box.size)])
    if not np.array_equal(want_pid, np.asarray(xm2.phase_id)):
        fail("phase-id:" + ("multi" if len(real) > 1 else "single"),
             f"phase ids {np.asarray(xm2.phase_id).tolist()} are not positions in the phase list {want_pid.tolist()}", sp)
        return
    present = sorted(set(int(v) for v in want_pid if v != -1))
    got_ph = [(int(i), p) for i, p in xm2.phases if i != -1]
    if [i for i, _ in got_ph] != present:
        fail("phase-list:ids", f"phases {[i for i, _ in got_ph]} read, {present} are present in the data", sp)
        return
    for i2, p2 in got_ph:
        i, p = real[i2 - 1]
        wname = p.name if p.name != "" else f"phase{i2}"
        if p2.name != wname:
            # blank-run: leading / trailing / repeated blanks, which a header split at blanks cannot keep
            s = ("blank-run" if " ".join(filter(None, re.split("[ \t]", wname))) != wname
                 else ("blank" if re.search(r"[ \t]", wname) else "other"))
            fail(f"phase-name:{s}", f"phase name {wname!r} comes back as {p2.name!r}", sp)
        wpg = "1" if p.point_group is None else p.point_group.proper_subgroup.name
        gpg = None if p2.point_group is None else p2.point_group.name
        if gpg != wpg:
            fail(f"point-group:{wpg}", f"proper point group {wpg} (of {p.point_group.name if p.point_group else None}) comes back as {gpg}", sp)
        wl = [round(float(v), 3) for v in p.structure.lattice.abcABG()]
        gl = [float(v) for v in p2.structure.lattice.abcABG()]
        if any(abs(a - b) > 1e-6 for a, b in zip(wl, gl)):
            fail("lattice:other", f"lattice constants {wl} come back as {gl}", sp)
    if (-1 in [int(i) for i in xm2.phases.ids]) != bool((want_pid == -1).any()):
        fail("phase-list:not-indexed", "not_indexed entry of the phase list does not match the data", sp)
    if xm2.scan_unit != "um":
        fail("scan-unit:other", f"scan unit {xm2.scan_unit}", sp)


# ------------------------------------------------------------------ run one spec
def run_spec(sp):
    xm = build(sp)
    m = observe_map(xm, sp)
    kw = sp["kw"]
    kwargs = {}
    if kw["index"] is not None:
        kwargs["index"] = kw["index"]
    for slot, arg in (("iq", "image_quality_prop"), ("ci", "confidence_index_prop"),
                      ("ds", "detector_signal_prop"), ("fit", "pattern_fit_prop")):
        if kw[slot] is not None:
            kwargs[arg] = kw[slot]
    if kw["extra"] is not None:
        kwargs["extra_prop"] = kw["extra"]
    path = os.path.join(TMP, "t.ang")
    if os.path.exists(path):
        os.remove(path)
    wr = rd = None
    xm2 = None
    exc = ""
    before = (xm.is_in_data.copy(), xm._phase_id.copy(), xm._rotations.data.copy())
    try:
        io.save(path, xm, overwrite=True, **kwargs)
        wr = tokenize(path)
    except Exception as e:  # noqa
        exc = f"{type(e).__name__}: {e}"
    if not (np.array_equal(before[0], xm.is_in_data) and np.array_equal(before[1], xm._phase_id)
            and np.array_equal(before[2], xm._rotations.data)):
        fail("write:mutates-map", "saving changed the crystal map", sp)
    if wr is not None:
        try:
            xm2 = io.load(path)
            eu_file = np.array([[c[1] / 1e5 for c in row[:3]] for row in wr["rows"]])
            q_file = Rotation.from_euler(eu_file).data.reshape(-1, 4)
            q2 = xm2.rotations.data.reshape(-1, 4)
            euler_ok = q_file.shape == q2.shape and bool(
                np.all(np.abs(np.abs(np.sum(q_file * q2, axis=1)) - 1) < 1e-9))
            rd = observe_loaded(xm2, wr, euler_ok)
        except Exception as e:  # noqa
            exc = f"{type(e).__name__}: {e}"
            xm2 = None
    extra = kw["extra"]
    extra = [extra] if isinstance(extra, str) else (extra or [])
    case = {"stratum": sp["stratum"], "m": m, "kw": {"index": kw["index"], "iq": kw["iq"], "ci": kw["ci"],
                                                     "ds": kw["ds"], "fit": kw["fit"], "extra": extra},
            "wr": wr, "rd": rd, "spec": sp}
    cases.append(case)
    st("gen/" + sp["stratum"])
    st("outcome/" + ("roundtrip" if rd is not None else ("load-raises" if wr is not None else "save-raises")))
    st(f"phases/{len([p for p in m['phases'] if p['id'] != -1])}")
    st("kw/index=" + str(kw["index"]))
    st("kw/extra=" + str(len(extra)))
    try:
        oracle(xm, sp, kwargs, xm2, wr is not None, rd is not None, exc)
    except Exception as e:  # noqa
        fail("oracle:crash", f"oracle could not evaluate the case: {type(e).__name__}: {e}", sp)


# ------------------------------------------------------------------ main
tables = {"groups": [[g.name, g.proper_subgroup.name] for g in _groups],
          "aliases": [[k, list(v)] for k, v in point_group_aliases.items()]}

# the alias clause for every named point group, on the implementation
for g in _groups:
    xm = CrystalMap.empty((2, 3))
    xm.phases[0].point_group = g
    path = os.path.join(TMP, "pg.ang")
    try:
        io.save(path, xm, overwrite=True)
        got = io.load(path).phases[1].point_group.name
    except Exception as e:  # noqa
        got = f"{type(e).__name__}"
    st("alias/" + g.name)
    if got != g.proper_subgroup.name:
        fail(f"point-group:{g.proper_subgroup.name}",
             f"point group {g.name}: proper point group {g.proper_subgroup.name} comes back as {got}",
             {"pg": g.name})

if ONLY:
    for sp in ONLY:
        run_spec(sp)
else:
    forced = ["plain", "masked", "1d", "tiny", "three-in-data", "one-in-data", "column", "coarse-step",
              "blank-name", "ci-collision", "multi-layer", "kw", "kw-error", "big-coords"]
    for s in forced:
        run_spec(rand_spec(s))
    # every tiny grid (1-3 points, single row / column / point) in every run: the strata of repaired defects
    for t in TINY:
        run_spec(rand_spec("tiny", tiny=t))
    for _ in range(max(0, N - len(forced) - len(TINY))):
        run_spec(rand_spec())

for f in os.listdir(TMP):
    try:
        os.remove(os.path.join(TMP, f))
    except OSError:
        pass
try:
    os.rmdir(TMP)
except OSError:
    pass

emit({"cases": cases, "fails": fails, "strata": strata, "tables": tables})
