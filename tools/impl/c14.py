"""C14 implementation harness: builds real CrystalMaps (/repo working tree),
writes them with the .ang writer and loads the file again with the .ang reader.

For the Coq correspondence it records (a) the map exactly as the writer sees it,
(b) the tokens of the file orix wrote and (c) the map orix loaded from it.
The oracle checks every clause of property C14 directly on the
implementation against an independent numpy computation.
"""
import math
import os
import re
import tempfile
from decimal import Decimal

import numpy as np
from common import emit, payload, rand_unit_quat, rng

from diffpy.structure import Lattice, Structure
from orix import io
from orix.crystal_map import CrystalMap, Phase, PhaseList, create_coordinate_arrays
from orix.quaternion import Rotation
from orix.quaternion.symmetry import _groups, point_group_aliases

P = payload()
R = rng(P.get("seed", 0))
N = P.get("n", 200)
ONLY = P.get("only")
TMP = P.get("tmp") or tempfile.mkdtemp(prefix="c14_")
os.makedirs(TMP, exist_ok=True)

cases, fails, strata = [], [], {}


def st(k):
    strata[k] = strata.get(k, 0) + 1


def fail(sig, what, spec):
    fails.append({"sig": sig, "what": what, "replay": {"spec": spec}})


GROUP_NAMES = [g.name for g in _groups]
PROPER = {g.name: g.proper_subgroup.name for g in _groups}

# ------------------------------------------------------------------ generator
STEPS_EXACT = [1.0, 1.5, 0.25, 0.1, 2.0, 0.05, 10.0, 1234.5]
STEPS_INEXACT = [0.123456789, 1 / 3, 0.7000004, 2.718281828]
NAMES_PLAIN = ["austenite", "ferrite", "Al", "Fe-bcc", "sigma_2", "Ni3Al", "a", "ZrO2", "(Ti,Nb)C", "b.c"]
NAMES_BLANK = ["my phase", "iron alpha", "a b c", " lead", "x  y"]
IQ_NAMES = ["iq", "IQ", "image_quality", "Imagequality"]
CI_NAMES = ["ci", "CI", "confidence_index", "scores", "Correlation"]
DS_NAMES = ["ss", "detector_signal", "SEM_signal", "ds"]
FIT_NAMES = ["fit", "pattern_fit", "Fit"]
OTHER_NAMES = ["dp", "bands", "my prop", "err", "nmatch", "iq2", "x_shift"]


def rand_lattice():
    k = R.choice(["cubic", "hex", "tetra", "ortho", "tri", "default"])
    a = round(R.uniform(0.2, 12), R.choice([1, 3, 4, 6]))
    b = round(R.uniform(0.2, 12), R.choice([1, 3, 4, 6]))
    c = round(R.uniform(0.2, 12), R.choice([1, 3, 4, 6]))
    if k == "default":
        return [1.0, 1.0, 1.0, 90.0, 90.0, 90.0]
    if k == "cubic":
        return [a, a, a, 90.0, 90.0, 90.0]
    if k == "hex":
        return [a, a, c, 90.0, 90.0, 120.0]
    if k == "tetra":
        return [a, a, c, 90.0, 90.0, 90.0]
    if k == "ortho":
        return [a, b, c, 90.0, 90.0, 90.0]
    return [a, b, c, round(R.uniform(80, 100), 4), round(R.uniform(80, 100), 4), round(R.uniform(80, 100), 4)]


def rand_value(kind):
    if kind == "unit":
        return R.random()
    if kind == "signed":
        return R.uniform(-5, 5)
    if kind == "big":
        return R.uniform(-1, 1) * 10 ** R.choice([3, 4, 6, 8])
    if kind == "int":
        return float(R.randint(-3, 2000))
    if kind == "tie":      # near half-way cases of the 5th decimal
        return R.randint(-300000, 300000) / 1e5 + R.choice([5e-6, -5e-6, 4.9999e-6])
    return R.choice([0.0, -1.0, 1.0, 180.0, 0.5, -0.5])


def rand_quat():
    k = R.random()
    if k < 0.08:
        return [1.0, 0.0, 0.0, 0.0]
    if k < 0.16:      # gimbal strata Phi = 0 / pi
        a = R.uniform(0, 2 * math.pi)
        return [math.cos(a / 2), 0.0, 0.0, math.sin(a / 2)] if R.random() < 0.5 else \
            [0.0, math.cos(a / 2), math.sin(a / 2), 0.0]
    return rand_unit_quat(R)


TINY = [("1dx", 1, 2), ("1dx", 1, 3), ("2d-unit", 1, 3), ("2d-unit", 1, 1), ("2d-unit", 3, 1),
        ("1dx", 1, 1), ("1dy", 2, 1), ("1dy", 3, 1), ("col2d", 2, 1), ("2d-unit", 2, 1)]


def rand_spec(stratum=None, tiny=None):
    stratum = stratum or R.choice(
        ["plain"] * 6 + ["masked"] * 5 + ["1d"] * 2 + ["tiny", "three-in-data", "one-in-data", "column",
                                                      "coarse-step", "blank-name", "ci-collision", "multi-layer",
                                                      "multi-layer", "kw", "kw", "kw-error", "big-coords"])
    sp = {"stratum": stratum}
    kind = "2d"
    nr, nc = R.choice([(2, 2), (2, 3), (3, 2), (3, 4), (4, 5), (2, 6), (5, 3), (1, 5), (4, 1)])
    if nr == 1 or nc == 1:
        kind = "2d-unit"
    dx = R.choice(STEPS_EXACT + STEPS_INEXACT[:2])
    dy = R.choice(STEPS_EXACT + STEPS_INEXACT[:2])
    if stratum == "1d":
        kind, nr, nc = "1dx", 1, R.choice([4, 5, 7, 12])
    if stratum == "tiny":
        kind, nr, nc = tiny or R.choice(TINY)
    if stratum == "column":
        kind, nr, nc = R.choice(["col2d", "1dy"]), R.choice([4, 5, 6]), 1
    if stratum == "coarse-step":
        nr, nc = R.choice([(2, 150), (3, 200), (130, 2)])
        dx = dy = R.choice([0.001004, 0.0010049, 0.002006])
    if stratum == "big-coords":
        nr, nc = R.choice([(3, 12), (12, 3)])
        dx, dy = R.choice([1234.5, 99999.5, 1e5]), R.choice([0.5, 1234.5])
    if kind == "2d-unit":
        kind = "2d"
    n = nr * nc
    sp.update(kind=kind, nr=nr, nc=nc, dx=dx, dy=dy)
    # mask
    mask = None
    if stratum in ("masked", "multi-layer", "kw") and R.random() < 0.7 or stratum == "masked":
        how = R.choice(["random", "rect", "row", "col"])
        if how == "random":
            mask = [R.random() < 0.7 for _ in range(n)]
        elif how == "rect" and nr > 1 and nc > 1:
            r0, r1 = sorted(R.sample(range(nr + 1), 2))
            c0, c1 = sorted(R.sample(range(nc + 1), 2))
            mask = [(r0 <= i // nc < r1) and (c0 <= i % nc < c1) for i in range(n)]
        elif how == "row":
            r0 = R.randrange(nr)
            mask = [i // nc == r0 for i in range(n)]
        else:
            c0 = R.randrange(nc)
            mask = [i % nc == c0 for i in range(n)]
        if mask is not None and sum(mask) == 0:
            mask[R.randrange(n)] = True
    if stratum == "three-in-data":
        if n < 4:
            nr, nc, n = 2, 3, 6
            sp.update(kind="2d", nr=nr, nc=nc)
        keep = R.sample(range(n), 3)
        mask = [i in keep for i in range(n)]
    if stratum == "one-in-data":
        if n < 4:
            nr, nc, n = 2, 3, 6
            sp.update(kind="2d", nr=nr, nc=nc)
        keep = R.randrange(n)
        mask = [i == keep for i in range(n)]
    sp["mask"] = mask
    # phases
    nph = R.choice([1, 1, 2, 2, 3])
    ids = sorted(R.sample(range(0, 9), nph)) if R.random() < 0.5 else list(range(nph))
    phases = []
    names = R.sample(NAMES_PLAIN, nph)
    for k, i in enumerate(ids):
        nm = names[k]
        if stratum == "blank-name" and (k == 0 or R.random() < 0.5):
            nm = R.choice(NAMES_BLANK)
        elif R.random() < 0.08:
            nm = ""
        pg = R.choice(GROUP_NAMES) if R.random() < 0.93 else None
        phases.append({"id": i, "name": nm, "pg": pg, "lat": rand_lattice()})
    sp["phases"] = phases
    p_ni = R.choice([0, 0, 0.15, 0.4]) if stratum != "ci-collision" else 0.1
    if R.random() < 0.03:
        p_ni = 1.0
    sp["pid"] = [-1 if R.random() < p_ni else R.choice(ids) for _ in range(n)]
    # rotations
    rpp = R.choice([2, 3]) if stratum == "multi-layer" or R.random() < 0.15 else 1
    sp["rpp"] = rpp
    sp["quat"] = [[rand_quat() for _ in range(rpp)] for _ in range(n)]
    # properties
    props = []
    used = set()

    def add_prop(name, multi=0, kind=None):
        if name in used:
            return
        used.add(name)
        kind = kind or R.choice(["unit", "unit", "signed", "big", "int", "tie", "special"])
        if multi:
            vals = [[rand_value(kind) for _ in range(multi)] for _ in range(n)]
        else:
            vals = [rand_value(kind) for _ in range(n)]
        props.append({"name": name, "multi": multi, "vals": vals, "kind": kind})

    layers = lambda: (R.choice([rpp, 2, 3]) if (rpp > 1 and R.random() < 0.6) else 0)  # noqa: E731
    if R.random() < 0.7:
        add_prop(R.choice(IQ_NAMES), layers())
    if R.random() < 0.7 or stratum == "ci-collision":
        add_prop(R.choice(CI_NAMES), layers(), kind=None if stratum != "ci-collision" else "special")
    if R.random() < 0.4:
        add_prop(R.choice(DS_NAMES), layers())
    if R.random() < 0.5:
        add_prop(R.choice(FIT_NAMES), layers())
    for _ in range(R.choice([0, 1, 2])):
        add_prop(R.choice(OTHER_NAMES), layers())
    sp["props"] = props
    # keywords
    kw = {"index": None, "iq": None, "ci": None, "ds": None, "fit": None, "extra": None}
    pnames = [p["name"] for p in props]
    if rpp > 1 and R.random() < 0.75:
        kw["index"] = R.choice([0, 1, rpp - 1, -1, -rpp])
    if stratum in ("kw", "multi-layer", "ci-collision") or R.random() < 0.25:
        for slot in ("iq", "ci", "ds", "fit"):
            if pnames and R.random() < 0.4:
                kw[slot] = R.choice(pnames)
            elif R.random() < 0.05:
                kw[slot] = ""
        if pnames and R.random() < 0.6:
            ex = R.sample(pnames, R.choice([1, min(2, len(pnames))]))
            kw["extra"] = ex[0] if (len(ex) == 1 and R.random() < 0.5) else ex
        elif R.random() < 0.1:
            kw["extra"] = []
    if stratum == "kw-error":
        what = R.choice(["missing", "index-1d", "index-range", "empty-extra"])
        if what == "missing":
            kw[R.choice(["iq", "ci", "ds", "fit"])] = "nosuchprop"
        elif what == "index-1d":
            sp["rpp"] = 1
            sp["quat"] = [[q[0]] for q in sp["quat"]]
            kw["index"] = 0
        elif what == "index-range":
            kw["index"] = sp["rpp"] + R.choice([0, 1])
        else:
            kw["extra"] = [""]
    sp["kw"] = kw
    return sp


# ------------------------------------------------------------------ build
def build(sp, use_mask=True, rot_cls=None, phase_list=None, with_props=True):
    """The optional arguments are used by the audit strata only (secondary ways of making the same map)."""
    nr, nc, kind = sp["nr"], sp["nc"], sp["kind"]
    n = nr * nc
    if kind == "2d":
        d, _ = create_coordinate_arrays((nr, nc), (sp["dy"], sp["dx"]))
        x, y = d["x"], d["y"]
    elif kind == "1dx":
        d, _ = create_coordinate_arrays((nc,), (sp["dx"],))
        x, y = d["x"], None
    elif kind == "col2d":
        x, y = np.zeros(n), np.arange(n) * sp["dy"]
    else:  # 1dy
        x, y = None, np.arange(n) * sp["dy"]
    x0, y0 = sp.get("origin") or (0.0, 0.0)      # only audit specs have an origin
    if x0 or y0:
        x = None if x is None else x + x0
        y = None if y is None else y + y0
    q = np.array(sp["quat"], dtype=float)
    rot = Rotation(q[:, 0, :]) if sp["rpp"] == 1 else Rotation(q)
    if rot_cls is not None:
        rot = rot_cls(rot)
    ph = sp["phases"]
    pl = phase_list if phase_list is not None else PhaseList(
        names=[p["name"] for p in ph],
        point_groups=[p["pg"] for p in ph],
        ids=[p["id"] for p in ph],
        structures=[Structure(lattice=Lattice(*p["lat"])) for p in ph],
    )
    prop = {}
    for p in sp["props"] if with_props else []:
        a = np.array(p["vals"], dtype=float)
        if p["kind"] == "int":
            a = a.astype(np.int64)
        if p.get("dtype"):                         # only audit specs name a dtype
            a = a.astype(np.dtype(p["dtype"]))
        prop[p["name"]] = a
    kw = {}
    if sp["mask"] is not None and use_mask:
        kw["is_in_data"] = np.array(sp["mask"], dtype=bool)
    return CrystalMap(rotations=rot, phase_id=np.array(sp["pid"], dtype=int), x=x, y=y, phase_list=pl,
                      prop=prop, **kw)


def observe_map(xm, sp):
    nr, nc, kind = sp["nr"], sp["nc"], sp["kind"]
    rows, cols = (nr, nc) if kind == "2d" else ((1, nc) if kind == "1dx" else (nr, 1))
    rmulti = xm._rotations.ndim == 2
    eu = xm._rotations.to_euler()
    n = rows * cols
    eu = eu.reshape(n, -1, 3)
    phases = []
    for i, p in xm.phases:
        phases.append({"id": int(i), "name": p.name, "pg": None if p.point_group is None else p.point_group.name,
                       "lat": [float(v) for v in p.structure.lattice.abcABG()]})
    props = []
    for name in xm._prop.keys():
        a = dict.__getitem__(xm._prop, name)
        props.append({"name": name, "multi": a.ndim == 2, "vals": np.asarray(a, dtype=float).reshape(n, -1).tolist()})
    return {"rows": rows, "cols": cols, "dx": float(xm.dx), "dy": float(xm.dy),
            "in": [bool(b) for b in xm.is_in_data], "pid": [int(i) for i in xm._phase_id],
            "rmulti": bool(rmulti), "rots": eu.tolist(), "phases": phases, "props": props}


# ------------------------------------------------------------------ file tokens
def fix(tok, dec):
    d = Decimal(tok)
    assert -d.as_tuple().exponent == dec, tok
    return int(d.scaleb(dec))


def tokenize(path):
    header, rows = [], []
    grid = {}
    for line in open(path).read().split("\n"):
        if line.startswith("#"):
            t = line[2:] if line.startswith("# ") else line[1:]
            m = re.fullmatch(r"Phase (-?\d+)", t)
            if m:
                header.append(["P", int(m.group(1))])
            elif t.startswith("MaterialName    "):
                header.append(["M", t[len("MaterialName    "):]])
            elif t.startswith("Formula    "):
                header.append(["F", t[len("Formula    "):]])
            elif t.startswith("Symmetry    "):
                header.append(["S", t[len("Symmetry    "):]])
            elif t.startswith("LatticeConstants    "):
                header.append(["L", [fix(v, 3) for v in t[len("LatticeConstants    "):].split(" ")]])
            elif t.startswith("XSTEP: "):
                grid["x"] = fix(t[7:], 6)
                header.append(["G", grid])
            elif t.startswith("YSTEP: "):
                grid["y"] = fix(t[7:], 6)
            elif t.startswith("NCOLS_ODD: "):
                grid["nc"] = int(t[11:])
            elif t.startswith("NCOLS_EVEN: "):
                grid["nc2"] = int(t[12:])
            elif t.startswith("NROWS: "):
                grid["nr"] = int(t[7:])
            elif t.startswith("OPERATOR: orix"):
                header.append(["O", "OPERATOR: orix"])
            elif t.startswith("Column names: "):
                header.append(["C", t[len("Column names: "):].split(", ")])
            else:
                header.append(["O", t])
        elif line.strip():
            cells = []
            for j, tok in enumerate(line.split()):
                if j == 7:
                    cells.append(["I", int(tok)])
                else:
                    cells.append(["F", fix(tok, 5)])
            rows.append(cells)
    if grid:
        assert grid["nc"] == grid["nc2"]
    return {"header": header, "rows": rows}


def k5(v, what):
    k = round(float(v) * 1e5)
    if abs(float(v) - k / 1e5) > 1e-9 * max(1.0, abs(float(v))):
        raise AssertionError(f"{what}: {v!r} is not a 5-decimal number")
    return int(k)


def observe_loaded(xm2, toks, euler_ok):
    eul = [[c[1] for c in row[:3]] for row in toks["rows"]]
    if not euler_ok:
        eul = [[0, 0, 0] for _ in eul]
    phases = []
    for i, p in xm2.phases:
        phases.append({"id": int(i), "name": p.name, "pg": None if p.point_group is None else p.point_group.name,
                       "lat": [int(round(float(v) * 1000)) for v in p.structure.lattice.abcABG()]})
    props = [[name, [k5(v, name) for v in xm2.prop[name]]] for name in xm2.prop.keys()]
    return {"shape": [int(s) for s in xm2.shape], "dx": k5(xm2.dx, "dx"), "dy": k5(xm2.dy, "dy"),
            "pid": [int(i) for i in xm2.phase_id], "eul": eul, "props": props, "phases": phases,
            "unit": xm2.scan_unit}


# ------------------------------------------------------------------ oracle
DOC_DEFAULTS = [["iq", "imagequality"], ["ci", "confidenceindex", "scores", "correlation"],
                ["ds", "detectorsignal", "ss", "semsignal"], ["fit", "patternfit"]]


def norm(s):
    return s.lower().replace("_", "")


def f32_5(v):
    """5 decimals of the single-precision value of np.round(v, 5)"""
    v = np.float64(v) if isinstance(v, (bool, np.bool_, np.float16)) else v    # written as the number 0/1; half precision rounded in single
    return round(float(np.float32(np.round(v, 5))), 5)


def layer(a, index):
    a = np.asarray(a)
    if a.ndim == 1:
        return a
    return a[:, index if index else 0]


def oracle(xm, sp, kwargs, xm2, saved, loaded, exc):
    """property clauses, checked on the implementation only"""
    kw = sp["kw"]
    n_all = xm.is_in_data.size
    n_in = int(xm.is_in_data.sum())
    rpp = sp["rpp"]
    pnames = list(xm.prop.keys())
    # --- legitimate refusals (caller errors), not property failures
    legit = False
    for slot in ("iq", "ci", "ds", "fit"):
        if kw[slot] and kw[slot] not in pnames:
            legit = True
    extra = kw["extra"]
    extra = [extra] if isinstance(extra, str) else (extra or [])
    for e in extra:
        if e and e not in pnames:
            legit = True
    idx = kw["index"]
    if idx is not None and (rpp == 1 or not (-rpp <= idx < rpp)):
        legit = True
    if idx is not None:
        for p in sp["props"]:
            used_names = [kw[s] for s in ("iq", "ci", "ds", "fit")] + extra
            if p["multi"] and not (-p["multi"] <= idx < p["multi"]):
                legit = True      # a chosen or discovered multi-layer property without that layer
    if not saved:
        if legit:
            st("oracle/refused-caller-error")
            return
        if n_all <= 3:
            s = "size<=3"
        elif n_in == 3:
            s = "three-in-data"
        else:
            s = "other"
        fail(f"write-raises:{s}", f"saving a valid map raises {exc} (map of {n_all} points, {n_in} in data)", sp)
        return
    if not loaded:
        s = "single-row" if n_in == 1 or len(open(os.path.join(TMP, "t.ang")).read().strip().split("\n")) < 1 else "other"
        bbox = int(np.prod(xm.shape)) if xm.shape else 1
        s = "single-row" if bbox == 1 else "other"
        fail(f"read-raises:{s}", f"the file written for a valid map cannot be loaded: {exc}", sp)
        return
    # --- grid
    shape = tuple(int(s) for s in xm.shape)
    want_shape = tuple(s for s in shape if s > 1)
    coarse = False
    for stp, cnt in ((xm.dx, shape[-1] if shape else 1), (xm.dy, shape[0] if len(shape) == 2 else 1)):
        r5 = round(float(stp), 5)
        if cnt > 1 and (r5 <= 0 or cnt * abs(float(stp) - r5) >= 0.5 * r5 - 1e-12):
            coarse = True
    column = sp["kind"] in ("col2d", "1dy")
    gstr = "single-column" if column else ("coarse-step" if coarse else "other")
    if tuple(xm2.shape) != want_shape:
        fail(f"shape:{gstr}", f"map of shape {shape} comes back with shape {tuple(xm2.shape)}", sp)
        return
    if len(shape) == 2:
        steps = [("dy", xm.dy, xm2.dy, shape[0]), ("dx", xm.dx, xm2.dx, shape[1])]
    elif len(shape) == 0:      # a single point: no step to preserve
        steps = []
    else:
        steps = [("dx", xm.dx, xm2.dx, shape[0])] if not column else [("dy", xm.dy, xm2.dy, shape[0])]
    for nm, a, b, cnt in steps:
        if cnt > 1 and abs(round(float(a), 5) - float(b)) > 1e-9:
            fail(f"step:{gstr}", f"step size {nm}={a} comes back as {b}", sp)
    # --- per point data in the bounding box
    ind_map = xm.get_map_data(xm.is_indexed, fill_value=False).reshape(-1).astype(bool)
    got_ind = np.asarray(xm2.is_indexed)
    if got_ind.size != ind_map.size:
        fail("size:other", f"{ind_map.size} points written, {got_ind.size} read", sp)
        return
    # which property feeds the four standard columns (documented defaults) + extras
    chosen = []
    for slot, cands in zip(("iq", "ci", "ds", "fit"), DOC_DEFAULTS):
        name = kw[slot]
        if not name:
            name = None
            for c in cands:
                hit = [p for p in pnames if norm(p) == c]
                if hit:
                    name = hit[0]
                    break
        chosen.append(name)
    std = ["iq", "ci", "detector_signal", "fit"]
    sentinels = [0.0, -1.0, 0.0, 180.0]
    ids_in = np.full(n_all, -2)
    ids_in[xm.is_in_data] = np.arange(n_in)
    box = xm.get_map_data(ids_in.astype(float)[xm.is_in_data], fill_value=-2).reshape(-1).astype(int)
    # indexed pattern
    ci_written = np.asarray(xm2.prop["ci"]) if "ci" in xm2.prop else None
    bad = np.nonzero(got_ind != ind_map)[0]
    if bad.size:
        k = int(bad[0])
        s = "ci=-1" if (ind_map[k] and ci_written is not None and ci_written[k] == -1) else "other"
        if "ci" in [e.lstrip(" ").replace(" ", "_") for e in extra]:
            s = "extra-named-ci"
        fail(f"indexed:{s}", f"point {k} of the written grid: indexed={bool(ind_map[k])} comes back as {bool(got_ind[k])}", sp)
        return
    # rotations
    rot = xm.rotations
    if rot.ndim == 2:
        rot = rot[:, idx if idx is not None else 0]
    want_eu = np.round(rot.to_euler(), 5)
    want_q = Rotation.from_euler(want_eu).data
    got_q = xm2.rotations.data
    fourpi = Rotation.from_euler(np.array([12.56637] * 3)).data.reshape(-1)
    for k in range(box.size):
        w = want_q[box[k]] if ind_map[k] else fourpi
        if abs(abs(float(np.dot(w, got_q[k]))) - 1) > 1e-9:
            fail("rotation:" + ("indexed" if ind_map[k] else "sentinel"),
                 f"point {k}: rotation read {got_q[k].tolist()} is not the written 5-decimal Euler angles", sp)
            break
    # property columns
    cols = [(std[j], chosen[j], sentinels[j], "std") for j in range(4)]
    for e in extra:
        cols.append((e.lstrip(" ").replace(" ", "_"), e if e else None, 0.0, "extra"))
    seen = {}
    for cname, src, sent, typ in cols:
        seen[cname] = (src, sent, typ)       # a later column of the same name overwrites
    for cname, (src, sent, typ) in seen.items():
        if cname in ("euler1", "euler2", "euler3", "x", "y", "phase_id"):
            continue
        if cname not in xm2.prop:
            fail(f"prop-missing:{typ}", f"column {cname!r} does not come back as a property", sp)
            continue
        got = np.asarray(xm2.prop[cname], dtype=float)
        try:
            vals = None if src is None else layer(xm.prop[src], idx)
        except IndexError:
            continue      # the property has no such layer (the writer did not use it either)
        for k in range(box.size):
            if ind_map[k]:
                w = 0.0 if vals is None else f32_5(vals[box[k]])
            else:
                w = sent
            if abs(got[k] - w) > 1e-9 * max(1.0, abs(w)):
                s = typ
                if typ == "std" and src is not None and not kw[dict(zip(std, ("iq", "ci", "ds", "fit")))[cname]]:
                    s = "default-" + norm(src)
                fail(f"prop:{s}:" + ("indexed" if ind_map[k] else "sentinel"),
                     f"column {cname!r} (from property {src!r}) point {k}: read {got[k]!r}, expected {w!r}", sp)
                break
    # phases
    real = [(i, p) for i, p in xm.phases if i != -1]
    pos = {i: k + 1 for k, (i, _) in enumerate(real)}
    pid_map = xm.get_map_data("phase_id", fill_value=-1).reshape(-1).astype(int)
    want_pid = np.array([pos[int(pid_map[k])] if ind_map[k] else -1 for k in range(box.size)])
    if not np.array_equal(want_pid, np.asarray(xm2.phase_id)):
        fail("phase-id:" + ("multi" if len(real) > 1 else "single"),
             f"phase ids {np.asarray(xm2.phase_id).tolist()} are not positions in the phase list {want_pid.tolist()}", sp)
        return
    present = sorted(set(int(v) for v in want_pid if v != -1))
    got_ph = [(int(i), p) for i, p in xm2.phases if i != -1]
    if [i for i, _ in got_ph] != present:
        fail("phase-list:ids", f"phases {[i for i, _ in got_ph]} read, {present} are present in the data", sp)
        return
    for i2, p2 in got_ph:
        i, p = real[i2 - 1]
        wname = p.name if p.name != "" else f"phase{i2}"
        if p2.name != wname:
            # blank-run: leading / trailing / repeated blanks, which a header split at blanks cannot keep
            s = ("blank-run" if " ".join(filter(None, re.split("[ \t]", wname))) != wname
                 else ("blank" if re.search(r"[ \t]", wname) else "other"))
            fail(f"phase-name:{s}", f"phase name {wname!r} comes back as {p2.name!r}", sp)
        wpg = "1" if p.point_group is None else p.point_group.proper_subgroup.name
        gpg = None if p2.point_group is None else p2.point_group.name
        if gpg != wpg:
            fail(f"point-group:{wpg}", f"proper point group {wpg} (of {p.point_group.name if p.point_group else None}) comes back as {gpg}", sp)
        wl = [round(float(v), 3) for v in p.structure.lattice.abcABG()]
        gl = [float(v) for v in p2.structure.lattice.abcABG()]
        if any(abs(a - b) > 1e-6 for a, b in zip(wl, gl)):
            fail("lattice:other", f"lattice constants {wl} come back as {gl}", sp)
    if (-1 in [int(i) for i in xm2.phases.ids]) != bool((want_pid == -1).any()):
        fail("phase-list:not-indexed", "not_indexed entry of the phase list does not match the data", sp)
    if xm2.scan_unit != "um":
        fail("scan-unit:other", f"scan unit {xm2.scan_unit}", sp)


# ------------------------------------------------------------------ run one spec
def run_spec(sp):
    xm = build(sp)
    m = observe_map(xm, sp)
    kw = sp["kw"]
    kwargs = {}
    if kw["index"] is not None:
        kwargs["index"] = kw["index"]
    for slot, arg in (("iq", "image_quality_prop"), ("ci", "confidence_index_prop"),
                      ("ds", "detector_signal_prop"), ("fit", "pattern_fit_prop")):
        if kw[slot] is not None:
            kwargs[arg] = kw[slot]
    if kw["extra"] is not None:
        kwargs["extra_prop"] = kw["extra"]
    path = os.path.join(TMP, "t.ang")
    if os.path.exists(path):
        os.remove(path)
    wr = rd = None
    xm2 = None
    exc = ""
    before = (xm.is_in_data.copy(), xm._phase_id.copy(), xm._rotations.data.copy())
    try:
        io.save(path, xm, overwrite=True, **kwargs)
        wr = tokenize(path)
    except Exception as e:  # noqa
        exc = f"{type(e).__name__}: {e}"
    if not (np.array_equal(before[0], xm.is_in_data) and np.array_equal(before[1], xm._phase_id)
            and np.array_equal(before[2], xm._rotations.data)):
        fail("write:mutates-map", "saving changed the crystal map", sp)
    if wr is not None:
        try:
            xm2 = io.load(path)
            eu_file = np.array([[c[1] / 1e5 for c in row[:3]] for row in wr["rows"]])
            q_file = Rotation.from_euler(eu_file).data.reshape(-1, 4)
            q2 = xm2.rotations.data.reshape(-1, 4)
            euler_ok = q_file.shape == q2.shape and bool(
                np.all(np.abs(np.abs(np.sum(q_file * q2, axis=1)) - 1) < 1e-9))
            rd = observe_loaded(xm2, wr, euler_ok)
        except Exception as e:  # noqa
            exc = f"{type(e).__name__}: {e}"
            xm2 = None
    extra = kw["extra"]
    extra = [extra] if isinstance(extra, str) else (extra or [])
    case = {"stratum": sp["stratum"], "m": m, "kw": {"index": kw["index"], "iq": kw["iq"], "ci": kw["ci"],
                                                     "ds": kw["ds"], "fit": kw["fit"], "extra": extra},
            "wr": wr, "rd": rd, "spec": sp}
    cases.append(case)
    st("gen/" + sp["stratum"])
    st("outcome/" + ("roundtrip" if rd is not None else ("load-raises" if wr is not None else "save-raises")))
    st(f"phases/{len([p for p in m['phases'] if p['id'] != -1])}")
    st("kw/index=" + str(kw["index"]))
    st("kw/extra=" + str(len(extra)))
    try:
        oracle(xm, sp, kwargs, xm2, wr is not None, rd is not None, exc)
    except Exception as e:  # noqa
        fail("oracle:crash", f"oracle could not evaluate the case: {type(e).__name__}: {e}", sp)


# ------------------------------------------------------------------ audit strata (property oracle only)
# Secondary entry points, histories and input classes which the generator above never produces.  They are NOT sent
# to the Coq correspondence (the model has no notion of dtype / origin / history); every stratum calls the real
# implementation and compares either with the property oracle above or with the file written for the same map
# made through the primary path (constructor + io.save(str)).  A replay spec is the base spec (what the primary
# path builds) plus "variant": {"name": ..., parameters}; `run_variant` is deterministic given that spec.
KNOWN_SIGS = {"shape:coarse-step", "phase-name:blank-run", "indexed:ci=-1", "indexed:extra-named-ci"}
STD_KW = (("iq", "image_quality_prop"), ("ci", "confidence_index_prop"),
          ("ds", "detector_signal_prop"), ("fit", "pattern_fit_prop"))


def kwargs_of(sp):
    kw = sp["kw"]
    kwargs = {}
    if kw["index"] is not None:
        kwargs["index"] = kw["index"]
    for slot, arg in STD_KW:
        if kw[slot] is not None:
            kwargs[arg] = kw[slot]
    if kw["extra"] is not None:
        kwargs["extra_prop"] = kw["extra"]
    return kwargs


def write_read(xm, kwargs, writer="save-str", reader="load-str"):
    """(text of the written file or None, loaded map or None, exception text)"""
    import pathlib
    from orix.io.plugins import ang as ang_plugin
    path = os.path.join(TMP, "t.ang")
    if writer == "save-path-upper":
        path = os.path.join(TMP, "T2.ANG")
    if os.path.exists(path):
        os.remove(path)
    text = xm2 = None
    exc = ""
    try:
        if writer == "save-str":
            io.save(path, xm, overwrite=True, **kwargs)
        elif writer == "save-path-upper":        # pathlib.Path, upper-case extension, overwrite=False on a new file
            io.save(pathlib.Path(path), xm, overwrite=False, **kwargs)
        elif writer == "plugin":                  # the plugin's writer called directly
            ang_plugin.file_writer(path, xm, **kwargs)
        elif writer == "overwrite-longer":        # an existing, longer file is replaced
            with open(path, "w") as f:
                f.write("# stale header line\n" * 80 + "0.0 0.0 0.0 0.0 0.0 0.0 0.0 1 0.0 0.0 9.0 9.0 9.0\n" * 400)
            io.save(path, xm, overwrite=True, **kwargs)
        else:
            raise AssertionError(writer)
        text = open(path).read()
    except Exception as e:  # noqa
        exc = f"{type(e).__name__}: {e}"
    if text is not None:
        try:
            if reader == "load-str":
                xm2 = io.load(path)
            elif reader == "load-path":
                xm2 = io.load(pathlib.Path(path))
            elif reader == "plugin":
                xm2 = ang_plugin.file_reader(path)
            else:
                raise AssertionError(reader)
        except Exception as e:  # noqa
            exc = f"{type(e).__name__}: {e}"
    return text, xm2, exc


def first_diff(a, b):
    la, lb = a.split("\n"), b.split("\n")
    for i, (u, v) in enumerate(zip(la, lb)):
        if u != v:
            return f"line {i + 1}: {u!r} != {v!r}"
    return f"{len(la)} lines != {len(lb)} lines"


def audit_oracle(xm, vsp, tag, **wr):
    """the property oracle on a map made through a secondary path; signatures get the stratum as a prefix
    (those of the listed findings stay as they are)"""
    kwargs = kwargs_of(vsp)
    text, xm2, exc = write_read(xm, kwargs, **wr)
    n0 = len(fails)
    try:
        oracle(xm, vsp, kwargs, xm2, text is not None, xm2 is not None, exc)
    except Exception as e:  # noqa
        fail("oracle:crash", f"oracle could not evaluate the case: {type(e).__name__}: {e}", vsp)
    for f in fails[n0:]:
        if f["sig"] not in KNOWN_SIGS:
            # the stratum is the tag: the size classes of "write-raises:" (strata of repaired defects) are dropped
            f["sig"] = tag + "/" + ("write-raises" if f["sig"].startswith("write-raises:") else f["sig"])
            f["what"] = f"[{tag}] " + f["what"]
    st("audit/" + tag)
    st("audit-outcome/" + ("roundtrip" if xm2 is not None else ("load-raises" if text is not None else "save-raises")))
    return text, xm2, exc


def audit_same_file(tag, ref, alt, vsp, what):
    """ref, alt = (text, loaded, exc) of the primary and of the secondary path for the SAME map"""
    if ref[0] is None and alt[0] is None:
        st("audit-same/both-refuse")
        return
    if (ref[0] is None) != (alt[0] is None):
        fail(f"{tag}/raises", f"{what}: one path writes the map, the other raises "
                              f"(primary: {ref[2] or 'ok'}; secondary: {alt[2] or 'ok'})", vsp)
    elif ref[0] != alt[0]:
        fail(f"{tag}/file-differs", f"{what}: the written files differ, {first_diff(ref[0], alt[0])}", vsp)
    else:
        st("audit-same/identical")


def same_loaded(a, b):
    """first difference of two loaded maps or ''"""
    if a is None or b is None:
        return "" if a is b else "one map could not be loaded"
    if tuple(a.shape) != tuple(b.shape):
        return f"shape {a.shape} != {b.shape}"
    if float(a.dx) != float(b.dx) or float(a.dy) != float(b.dy):
        return f"steps {(a.dx, a.dy)} != {(b.dx, b.dy)}"
    if not np.array_equal(a.phase_id, b.phase_id):
        return "phase ids differ"
    if not np.array_equal(a.rotations.data, b.rotations.data):
        return "rotations differ"
    if list(a.prop.keys()) != list(b.prop.keys()):
        return f"properties {list(a.prop.keys())} != {list(b.prop.keys())}"
    for k in a.prop.keys():
        if not np.array_equal(a.prop[k], b.prop[k]):
            return f"property {k!r} differs"
    pa = [(i, p.name, getattr(p.point_group, "name", None), tuple(p.structure.lattice.abcABG())) for i, p in a.phases]
    pb = [(i, p.name, getattr(p.point_group, "name", None), tuple(p.structure.lattice.abcABG())) for i, p in b.phases]
    if pa != pb:
        return f"phases {pa} != {pb}"
    return ""


CLEAN = ["plain", "plain", "masked", "masked", "multi-layer", "kw", "1d", "tiny", "column", "big-coords",
         "three-in-data", "one-in-data"]


def base_spec(strata=None, **need):
    """a spec of the primary generator from the strata without listed findings"""
    for _ in range(200):
        sp = rand_spec(R.choice(strata or CLEAN))
        if need.get("props") and not sp["props"]:
            continue
        if need.get("two_axes") and not (sp["kind"] == "2d" and sp["nr"] > 1 and sp["nc"] > 1):
            continue
        if need.get("phases") and len(sp["phases"]) < need["phases"]:
            continue
        return sp
    raise AssertionError("no base spec")


def grid_rc(sp):
    """(rows, cols) of the full grid as the CrystalMap sees it"""
    if sp["kind"] == "2d":
        return sp["nr"], sp["nc"]
    return (1, sp["nc"]) if sp["kind"] == "1dx" else (sp["nr"], 1)


def rect_mask(rows, cols, r0, r1, c0, c1):
    return [(r0 <= i // cols < r1) and (c0 <= i % cols < c1) for i in range(rows * cols)]


def rand_rect(rows, cols):
    r0, r1 = (0, 1) if rows == 1 else sorted(R.sample(range(rows + 1), 2))
    c0, c1 = (0, 1) if cols == 1 else sorted(R.sample(range(cols + 1), 2))
    return r0, r1, c0, c1


def slice_key(rows, cols, r0, r1, c0, c1):
    """the key selecting the rectangle (relative to the bounding box of the points in data) in a selection of a
    map whose FULL grid is rows x cols: an axis exists iff the full grid has more than one point along it"""
    key = []
    if rows > 1:
        key.append(slice(r0, r1))
    if cols > 1:
        key.append(slice(c0, c1))
    return tuple(key)


# ---- 1. histories: the written map is a selection made by __getitem__ (slices, boolean arrays, phase names,
#         "indexed", selections of selections, deep copies) or gets its properties after the selection
HISTORIES = ["bool", "slice", "slice-of-slice", "bool-then-slice", "phase-name", "phase-names", "indexed",
             "deepcopy", "prop-after-select", "int-1d"]


def gen_history(how):
    sp = base_spec(["plain", "plain", "multi-layer", "kw", "1d", "big-coords", "column"])
    if how in ("phase-name", "phase-names", "indexed"):
        sp = base_spec(["plain", "kw", "multi-layer"], phases=2)
    if how == "int-1d":
        sp = base_spec(["1d", "column"])
    rows, cols = grid_rc(sp)
    n = rows * cols
    v = {"name": "history", "how": how}
    mask = None
    if how in ("phase-name", "phase-names"):
        names = [p["name"] for p in sp["phases"]]
        ok = [p for p in sp["phases"] if p["name"] and names.count(p["name"]) == 1 and p["id"] in sp["pid"]]
        if ok:
            take = ok[:1] if how == "phase-name" else ok[:2]
            v["names"] = [p["name"] for p in take]
            ids = [p["id"] for p in take]
            mask = [i in ids for i in sp["pid"]]
    elif how == "indexed":
        if any(i != -1 for i in sp["pid"]):
            mask = [i != -1 for i in sp["pid"]]
    elif how in ("slice", "slice-of-slice"):
        if n > 1:
            v["rect"] = rand_rect(rows, cols)
            mask = rect_mask(rows, cols, *v["rect"])
    elif how == "int-1d":
        v["k"] = R.randrange(n)
        mask = [i == v["k"] for i in range(n)]
    elif how == "bool-then-slice":
        for _ in range(30):
            m1 = [R.random() < 0.7 for _ in range(n)]
            if not any(m1):
                continue
            rr = [i // cols for i in range(n) if m1[i]]
            cc = [i % cols for i in range(n) if m1[i]]
            br, bc = max(rr) - min(rr) + 1, max(cc) - min(cc) + 1
            if br * bc < 2:
                continue
            a0, a1, b0, b1 = rand_rect(br, bc)
            m2 = rect_mask(rows, cols, min(rr) + a0, min(rr) + a1, min(cc) + b0, min(cc) + b1)
            m = [x and y for x, y in zip(m1, m2)]
            if any(m):
                v.update(first=m1, box=[br, bc], rect=[a0, a1, b0, b1])
                mask = m
                break
    if mask is None:                      # "bool", "deepcopy", "prop-after-select" and every fallback
        if how not in ("bool", "deepcopy", "prop-after-select"):
            v["how"] = how = "bool"
        mask = [R.random() < 0.6 for _ in range(n)]
        if not any(mask):
            mask[R.randrange(n)] = True
    if how == "prop-after-select":         # the property setter of a selection takes one value per point only
        sp["props"] = [p for p in sp["props"] if not p["multi"]]
        for s in ("iq", "ci", "ds", "fit"):
            if sp["kw"][s] and sp["kw"][s] not in [p["name"] for p in sp["props"]]:
                sp["kw"][s] = None
        if sp["kw"]["extra"] is not None:
            ex = [sp["kw"]["extra"]] if isinstance(sp["kw"]["extra"], str) else sp["kw"]["extra"]
            sp["kw"]["extra"] = [e for e in ex if e in [p["name"] for p in sp["props"]]]
    sp["mask"] = mask
    sp["variant"] = v
    return sp


def run_history(vsp):
    v = vsp["variant"]
    how = v["how"]
    tag = "history=" + how
    rows, cols = grid_rc(vsp)
    mask = np.array(vsp["mask"], dtype=bool)
    ref = write_read(build(vsp), kwargs_of(vsp))
    full = build(vsp, use_mask=False, with_props=how != "prop-after-select")
    if how in ("bool", "deepcopy", "prop-after-select"):
        alt = full[mask]
    elif how == "slice":
        alt = full[slice_key(rows, cols, *v["rect"])]
    elif how == "slice-of-slice":
        r0, r1, c0, c1 = v["rect"]
        alt = full[slice_key(rows, cols, r0, rows, c0, cols)][slice_key(rows, cols, 0, r1 - r0, 0, c1 - c0)]
    elif how == "bool-then-slice":
        alt = full[np.array(v["first"], dtype=bool)][slice_key(rows, cols, *v["rect"])]
    elif how == "phase-name":
        alt = full[v["names"][0]]
    elif how == "phase-names":
        alt = full[tuple(v["names"])]
    elif how == "indexed":
        alt = full["indexed"]
    elif how == "int-1d":
        alt = full[int(v["k"])]
    else:
        raise AssertionError(how)
    if how == "deepcopy":
        alt = alt.deepcopy()
    if how == "prop-after-select":
        for p in vsp["props"]:
            a = np.array(p["vals"], dtype=float)
            if p["kind"] == "int":
                a = a.astype(np.int64)
            alt.prop[p["name"]] = a[mask]
    if not np.array_equal(alt.is_in_data, mask):
        fail(f"{tag}/selection", f"the selection {how} does not select the expected points "
                                 f"({alt.is_in_data.astype(int).tolist()} instead of {mask.astype(int).tolist()})", vsp)
        return
    got = audit_oracle(alt, vsp, tag)
    audit_same_file(tag, ref, got, vsp, f"map selected by {how} vs the same map made by the constructor")


# ---- 2. in-place changes before writing: phase renamed / point group / structure set through the phase list, phase
#         ids and property values of a selection set through the setters, a phase added that no point has
INPLACE = ["rename-phase", "set-point-group", "set-structure", "set-phase-id", "set-prop", "add-phase"]


def gen_inplace(how):
    sp = base_spec(props=(how == "set-prop"))
    n = sp["nr"] * sp["nc"]
    v = {"name": "inplace", "how": how}
    in_data = sp["mask"] or [True] * n
    if how in ("rename-phase", "set-point-group", "set-structure"):
        for _ in range(100):                  # a phase that some point has (the constructor drops the others)
            if any(p["id"] in sp["pid"] for p in sp["phases"]):
                break
            sp = base_spec()
        v["k"] = R.choice([k for k, p in enumerate(sp["phases"]) if p["id"] in sp["pid"]])
        if how == "set-point-group" and sp["phases"][v["k"]]["pg"] is None:
            sp["phases"][v["k"]]["pg"] = R.choice(GROUP_NAMES)
    elif how == "set-phase-id":
        # final ids = the spec's; before, the points of `sel` had other ids of the same set (the first point of
        # every id is not selected, so that the phase list is the same before and after)
        first = {}
        for i, p in enumerate(sp["pid"]):
            first.setdefault(p, i)
        cand = [i for i in range(n) if in_data[i] and first[sp["pid"][i]] != i]
        sel = [i for i in cand if R.random() < 0.5] or cand[:1]
        vals = sorted(first)
        v["sel"] = sel
        v["before"] = [R.choice(vals) for _ in sel]
        v["scalar"] = bool(sel) and len(set(sp["pid"][i] for i in sel)) == 1
    elif how == "set-prop":
        ok = [p for p in sp["props"] if not p["multi"]]
        if not ok:
            sp["props"][0]["multi"] = 0
            sp["props"][0]["vals"] = [r[0] for r in sp["props"][0]["vals"]]
            ok = [sp["props"][0]]
        p = R.choice(ok)
        v["prop"] = p["name"]
        cand = [i for i in range(n) if in_data[i]]
        v["sel"] = [i for i in cand if R.random() < 0.5] or cand[:1]
        v["before"] = [rand_value("signed") for _ in v["sel"]]
        v["attr"] = bool(p["name"].isidentifier() and R.random() < 0.5)
    else:
        used = [p["name"] for p in sp["phases"]]
        v["phase"] = {"name": R.choice([nm for nm in NAMES_PLAIN if nm not in used]),
                      "pg": R.choice(GROUP_NAMES), "lat": rand_lattice()}
    sp["variant"] = v
    return sp


def run_inplace(vsp):
    v = vsp["variant"]
    how = v["how"]
    tag = "inplace=" + how
    n = vsp["nr"] * vsp["nc"]
    in_data = np.array(vsp["mask"] or [True] * n, dtype=bool)
    before = dict(vsp)
    if how in ("rename-phase", "set-point-group", "set-structure"):
        ph = [dict(p) for p in vsp["phases"]]
        k = v["k"]
        if how == "rename-phase":
            ph[k]["name"] = "tmp name 0"
        elif how == "set-point-group":
            ph[k]["pg"] = None
        else:
            ph[k]["lat"] = [1.0, 1.0, 1.0, 90.0, 90.0, 90.0]
        before["phases"] = ph
    elif how == "set-phase-id":
        pid = list(vsp["pid"])
        for i, b in zip(v["sel"], v["before"]):
            pid[i] = b
        before["pid"] = pid
    elif how == "set-prop":
        props = [dict(p) for p in vsp["props"]]
        for p in props:
            if p["name"] == v["prop"]:
                vals = list(p["vals"])
                for i, b in zip(v["sel"], v["before"]):
                    vals[i] = float(int(b)) if p["kind"] == "int" else b
                p["vals"] = vals
        before["props"] = props
    alt = build(before)
    if how in ("rename-phase", "set-point-group", "set-structure"):
        p = vsp["phases"][v["k"]]
        target = alt.phases[p["id"]]
        if how == "rename-phase":
            target.name = p["name"]
        elif how == "set-point-group":
            target.point_group = p["pg"]
        else:
            target.structure = Structure(lattice=Lattice(*p["lat"]))
    elif how in ("set-phase-id", "set-prop") and v["sel"]:
        key = np.zeros(n, dtype=bool)
        key[v["sel"]] = True
        part = alt[key[in_data]]
        if how == "set-phase-id":
            new = np.array([vsp["pid"][i] for i in v["sel"]])
            part.phase_id = int(new[0]) if v["scalar"] else new
        else:
            p = [p for p in vsp["props"] if p["name"] == v["prop"]][0]
            new = np.array([p["vals"][i] for i in v["sel"]], dtype=float)
            if p["kind"] == "int":
                new = new.astype(np.int64)
            if v["attr"]:
                setattr(part, p["name"], new)
            else:
                part.prop[p["name"]] = new
    elif how == "add-phase":
        a = v["phase"]
        alt.phases.add(Phase(name=a["name"], point_group=a["pg"], structure=Structure(lattice=Lattice(*a["lat"]))))
    got = audit_oracle(alt, vsp, tag)
    if how != "add-phase":
        ref = write_read(build(vsp), kwargs_of(vsp))
        audit_same_file(tag, ref, got, vsp, f"map changed in place ({how}) vs the same map made by the constructor")


# ---- 3. entry points: pathlib.Path / upper-case extension / overwrite=False, the plugin's writer and reader
#         called directly, an existing longer file replaced
ENTRIES = [("save-path-upper", "load-path"), ("plugin", "plugin"), ("overwrite-longer", "load-str"),
           ("save-path-upper", "plugin"), ("plugin", "load-path")]


def gen_entry(pair):
    sp = base_spec()
    sp["variant"] = {"name": "entry", "writer": pair[0], "reader": pair[1]}
    return sp


def run_entry(vsp):
    v = vsp["variant"]
    tag = f"entry={v['writer']}+{v['reader']}"
    xm = build(vsp)
    ref = write_read(xm, kwargs_of(vsp))
    got = audit_oracle(xm, vsp, tag, writer=v["writer"], reader=v["reader"])
    audit_same_file(tag, ref, got, vsp, f"written through {v['writer']} vs io.save(str)")
    d = same_loaded(ref[1], got[1])
    if d:
        fail(f"{tag}/loaded-differs", f"read through {v['reader']} vs io.load(str): {d}", vsp)


# ---- 4. class of the rotations: Orientation (with and without symmetry), Misorientation instead of Rotation
ROT_CLASSES = ["Orientation", "Orientation+symmetry", "Misorientation"]


def gen_rot_class(cls):
    sp = base_spec()
    sp["variant"] = {"name": "rot-class", "cls": cls, "pg": R.choice(GROUP_NAMES)}
    return sp


def run_rot_class(vsp):
    from orix.quaternion import Misorientation, Orientation
    v = vsp["variant"]
    tag = "rot-class=" + v["cls"]
    sym = [g for g in _groups if g.name == v["pg"]][0]
    if v["cls"] == "Orientation":
        cls = Orientation
    elif v["cls"] == "Orientation+symmetry":
        cls = lambda r: Orientation(r, symmetry=sym)  # noqa: E731
    else:
        cls = lambda r: Misorientation(r, symmetry=(sym, sym))  # noqa: E731
    ref = write_read(build(vsp), kwargs_of(vsp))
    got = audit_oracle(build(vsp, rot_cls=cls), vsp, tag)
    audit_same_file(tag, ref, got, vsp, f"rotations given as {v['cls']} vs Rotation")


# ---- 5. dtype of the property arrays (the generator above has float64 and int64 only)
DTYPES = ["float32", "int32", "uint8", "int16", "uint16", "bool", "float16"]


def gen_dtype(dt):
    sp = base_spec(["plain", "masked", "kw", "multi-layer"])
    n = sp["nr"] * sp["nc"]
    names = [R.choice(IQ_NAMES), R.choice(CI_NAMES + DS_NAMES), R.choice(OTHER_NAMES)]
    props = []
    for nm in names:
        multi = R.choice([0, 0, 2]) if sp["rpp"] > 1 else 0
        def val():  # noqa: E306
            if dt == "float32":
                return float(np.float32(rand_value(R.choice(["unit", "signed", "big", "tie"]))))
            if dt == "float16":
                return float(np.float16(R.random()))
            if dt == "bool":
                return float(R.random() < 0.5)
            lo, hi = {"int32": (-70000, 70000), "uint8": (0, 255), "int16": (-300, 300), "uint16": (0, 65535)}[dt]
            return float(R.randint(lo, hi))
        vals = [[val() for _ in range(multi)] for _ in range(n)] if multi else [val() for _ in range(n)]
        props.append({"name": nm, "multi": multi, "vals": vals, "kind": "dtype", "dtype": dt})
    sp["props"] = props
    idx = R.choice([None, 0, 1, -1]) if sp["rpp"] > 1 else None
    sp["kw"] = {"index": idx, "iq": None, "ci": None, "ds": None, "fit": None, "extra": [names[2]]}
    if R.random() < 0.5:
        sp["kw"]["fit"] = names[0]
    sp["variant"] = {"name": "prop-dtype", "dtype": dt}
    return sp


def run_dtype(vsp):
    audit_oracle(build(vsp), vsp, "prop-dtype=" + vsp["variant"]["dtype"])


# ---- 6. origin of the coordinates (the generator's maps all start at (0, 0)), also for selections of such maps
def gen_origin(k):
    sp = base_spec(["plain", "masked", "1d", "column", "tiny", "three-in-data", "multi-layer"])
    exact = k % 2 == 0
    if exact:
        sp["dx"], sp["dy"] = R.choice([1.0, 1.5, 0.25, 2.0, 10.0]), R.choice([1.0, 1.5, 0.25, 2.0, 10.0])
        org = [R.randint(-4000, 4000) * 0.25, R.randint(-4000, 4000) * 0.25]
    else:
        org = [round(R.uniform(-500, 500), R.choice([1, 2, 5])), round(R.uniform(-500, 500), R.choice([1, 2, 5]))]
    if k % 3 == 0:
        org[R.randrange(2)] = 0.0
    sp["origin"] = org
    sp["variant"] = {"name": "origin", "exact": exact}
    return sp


def run_origin(vsp):
    audit_oracle(build(vsp), vsp, "origin=" + ("exact" if vsp["variant"]["exact"] else "inexact"))


# ---- 7. phases made through the other keywords: space group instead of point group, Phase objects, name taken
#         from the structure's title, Symmetry objects, atoms in the structure, ids far from 0..n
def gen_phase_entry(k):
    sp = base_spec(["plain", "masked", "kw", "multi-layer", "1d"])
    how = ["space_groups=", "Phase(space_group)", "Phase(title, Symmetry)", "dict of Phase"][k % 4]
    remap = {}
    for j, p in enumerate(sp["phases"]):
        remap[p["id"]] = p["id"] if k % 3 else p["id"] * 37 + 11
        p["sg"] = R.randint(1, 230) if "space" in how or R.random() < 0.5 else None
        if not p["name"]:
            p["name"] = f"n{j}"
        p["id"] = remap[p["id"]]
    sp["pid"] = [remap.get(i, -1) for i in sp["pid"]]
    sp["variant"] = {"name": "phase-entry", "how": how}
    return sp


def run_phase_entry(vsp):
    from diffpy.structure import Atom
    how = vsp["variant"]["how"]
    ph = vsp["phases"]
    sym = {g.name: g for g in _groups}
    strs = [Structure(lattice=Lattice(*p["lat"])) for p in ph]
    if how == "space_groups=":
        pl = PhaseList(names=[p["name"] for p in ph], space_groups=[p["sg"] for p in ph], ids=[p["id"] for p in ph],
                       structures=strs)
    else:
        objs = []
        for p, s in zip(ph, strs):
            if how == "Phase(title, Symmetry)":
                s = Structure(atoms=[Atom("Fe", [0, 0, 0]), Atom("C", [0.5, 0.5, 0.5])], lattice=Lattice(*p["lat"]),
                              title=p["name"])
                pg = None if p["pg"] is None else sym[p["pg"]]
                objs.append(Phase(space_group=p["sg"], point_group=pg if p["sg"] is None else None, structure=s))
            else:
                objs.append(Phase(name=p["name"], space_group=p["sg"],
                                  point_group=p["pg"] if p["sg"] is None else None, structure=s))
        if how == "dict of Phase":
            pl = PhaseList({p["id"]: o for p, o in zip(ph, objs)})
        else:
            pl = PhaseList(objs, ids=[p["id"] for p in ph])
    xm = build(vsp, phase_list=pl)
    for p in ph:                       # reference for the symmetry actually written: the space group's point group
        if p["sg"] is not None and p["id"] in xm.phases.ids:
            from orix.quaternion.symmetry import get_point_group
            want = get_point_group(int(p["sg"])).name
            got = xm.phases[p["id"]].point_group
            if got is None or got.name != want:
                fail("phase-entry/space-group-not-used", f"phase with space group {p['sg']} has point group "
                                                         f"{getattr(got, 'name', None)}, expected {want}", vsp)
    audit_oracle(xm, vsp, "phase-entry=" + how)


# ---- 8. several values per point in a property of a map with ONE rotation per point (the generator gives
#         several layers to properties only when the rotations have several as well)
def gen_multi_prop(k):
    sp = base_spec(["plain", "masked", "kw", "1d", "tiny"])
    n = sp["nr"] * sp["nc"]
    if sp["rpp"] > 1:
        sp["rpp"] = 1
        sp["quat"] = [[q[0]] for q in sp["quat"]]
    names = [R.choice(IQ_NAMES), R.choice(CI_NAMES), R.choice(OTHER_NAMES)]
    layers = [2, 3, 1, 4][k % 4]            # 3 values per point look like RGB to get_map_data
    sp["props"] = [{"name": nm, "multi": layers, "kind": "unit",
                    "vals": [[rand_value("unit") for _ in range(layers)] for _ in range(n)]} for nm in names]
    sp["kw"] = {"index": None, "iq": None, "ci": None, "ds": names[2] if k % 2 else None, "fit": None,
                "extra": [names[2]]}
    sp["variant"] = {"name": "multi-prop-single-rot", "layers": layers}
    return sp


def run_multi_prop(vsp):
    audit_oracle(build(vsp), vsp, f"multi-prop-single-rot={vsp['variant']['layers']}")


# ---- 9. NaN in the properties of not-indexed and of masked-out points (their columns hold the sentinels)
def gen_nan(k):
    for _ in range(100):
        sp = base_spec(["plain", "masked", "kw", "multi-layer"], props=True)
        n = sp["nr"] * sp["nc"]
        for i in range(n):
            if R.random() < 0.35:
                sp["pid"][i] = -1
        if -1 in sp["pid"] and any(i != -1 for i in sp["pid"]):
            break
    sp["props"] = [p for p in sp["props"] if p["kind"] != "int"] or sp["props"][:1]
    keep = [p["name"] for p in sp["props"]]
    for s in ("iq", "ci", "ds", "fit"):
        if sp["kw"][s] and sp["kw"][s] not in keep:
            sp["kw"][s] = None
    if sp["kw"]["extra"] is not None:
        ex = [sp["kw"]["extra"]] if isinstance(sp["kw"]["extra"], str) else sp["kw"]["extra"]
        sp["kw"]["extra"] = [e for e in ex if e in keep] or [keep[0]]
    else:
        sp["kw"]["extra"] = [keep[-1]]
    sp["variant"] = {"name": "nan-not-indexed", "value": ["nan", "inf", "-inf"][k % 3]}
    return sp


def run_nan(vsp):
    n = vsp["nr"] * vsp["nc"]
    bad = float(vsp["variant"]["value"])
    in_data = vsp["mask"] or [True] * n
    sp2 = dict(vsp)
    sp2["props"] = []
    for p in vsp["props"]:
        p = dict(p)
        p["kind"] = "float"
        p["vals"] = [([bad] * len(r) if isinstance(r, list) else bad) if (vsp["pid"][i] == -1 or not in_data[i]) else r
                     for i, r in enumerate(p["vals"])]
        sp2["props"].append(p)
    audit_oracle(build(sp2), vsp, "nan-not-indexed=" + vsp["variant"]["value"])


# ---- 10. second generation: the map loaded from a written file is written again (with its extra columns) and
#          must come back as it is
def gen_rewrite(k):
    sp = base_spec()
    sp["variant"] = {"name": "rewrite"}
    return sp


def run_rewrite(vsp):
    xm = build(vsp)
    _, xm2, _ = write_read(xm, kwargs_of(vsp))
    if xm2 is None:
        st("audit/rewrite-first-generation-refused")
        return
    extra = [k for k in xm2.prop.keys() if k not in ("iq", "ci", "detector_signal", "fit")]
    one_col = xm2.ndim == 1 and xm2.x is None
    # an extra column whose name is itself a default candidate (e.g. "ss") would compete with the standard column
    # in the discovery by name: then the standard properties are chosen by keyword, otherwise found by name
    amb = any(norm(e) in c for e in extra for c in DOC_DEFAULTS) or len(extra) % 2 == 1
    std = {"iq": "iq", "ci": "ci", "ds": "detector_signal", "fit": "fit"} if amb else dict.fromkeys(("iq", "ci", "ds", "fit"))
    sp2 = {"stratum": vsp["stratum"], "variant": vsp["variant"], "base": {k: w for k, w in vsp.items() if k != "variant"},
           "rpp": 1, "props": [], "kind": "1dy" if one_col else ("1dx" if xm2.ndim == 1 else "2d"),
           "kw": dict(std, index=None, extra=extra or None)}
    n0 = len(fails)
    _, xm3, _ = audit_oracle(xm2, sp2, "rewrite")
    for f in fails[n0:]:               # the replayable input is the first-generation spec
        f["what"] += f" (second generation, written with {sp2['kw']})"
        f["replay"] = {"spec": vsp}
    if xm3 is not None:
        ids2, ids3 = [i for i in xm2.phases.ids if i != -1], [i for i in xm3.phases.ids if i != -1]
        if ids2 == list(range(1, len(ids2) + 1)) and ids3 != ids2:
            fail("rewrite/phase-ids", f"phase ids {ids2} of a loaded map come back as {ids3}", vsp)


# ---- 11. two candidates for one standard column at once (two documented default names, or two names that
#          normalise to the same one): the first in the documented order / in the order of the properties is used
TWO_DEFAULTS = [("iq", "image_quality"), ("Imagequality", "iq"), ("ci", "scores"), ("Correlation", "confidence_index"),
                ("scores", "correlation"), ("ds", "detector_signal"), ("detector_signal", "ds"), ("fit", "pattern_fit"),
                ("Pattern_Fit", "Fit"), ("IQ", "iq"), ("CI", "ci"), ("Scores", "scores")]


def gen_two_defaults(pair):
    sp = base_spec(["plain", "masked", "multi-layer", "1d"])
    n = sp["nr"] * sp["nc"]
    props = []
    for nm in list(pair) + [R.choice(OTHER_NAMES)]:
        multi = R.choice([0, sp["rpp"]]) if sp["rpp"] > 1 else 0
        vals = [[rand_value("unit") for _ in range(multi)] for _ in range(n)] if multi else \
            [rand_value("unit") for _ in range(n)]
        props.append({"name": nm, "multi": multi, "vals": vals, "kind": "unit"})
    sp["props"] = props
    sp["kw"] = {"index": R.choice([None, 0, -1]) if sp["rpp"] > 1 else None, "iq": None, "ci": None, "ds": None,
                "fit": None, "extra": None}
    sp["variant"] = {"name": "two-defaults", "pair": list(pair)}
    return sp


def run_two_defaults(vsp):
    audit_oracle(build(vsp), vsp, "two-defaults=" + "+".join(vsp["variant"]["pair"]))


VARIANTS = {"history": (gen_history, run_history, HISTORIES), "inplace": (gen_inplace, run_inplace, INPLACE),
            "entry": (gen_entry, run_entry, ENTRIES), "rot-class": (gen_rot_class, run_rot_class, ROT_CLASSES),
            "prop-dtype": (gen_dtype, run_dtype, DTYPES), "origin": (gen_origin, run_origin, list(range(6))),
            "phase-entry": (gen_phase_entry, run_phase_entry, list(range(12))),
            "multi-prop-single-rot": (gen_multi_prop, run_multi_prop, list(range(4))),
            "nan-not-indexed": (gen_nan, run_nan, list(range(3))), "rewrite": (gen_rewrite, run_rewrite, list(range(6))),
            "two-defaults": (gen_two_defaults, run_two_defaults, TWO_DEFAULTS)}


def run_variant(vsp):
    name = vsp["variant"]["name"]
    try:
        VARIANTS[name][1](vsp)
    except Exception as e:  # noqa
        import traceback
        tb = traceback.extract_tb(e.__traceback__)[-1]
        fail(f"{name}/harness-or-library-raises", f"stratum {vsp['variant']}: {type(e).__name__}: {e} "
                                                  f"(at {os.path.basename(tb.filename)}:{tb.lineno})", vsp)


def run_audit(reps):
    for name, (gen, _, modes) in VARIANTS.items():
        for _ in range(reps):
            for mode in modes:               # deterministic cycling over the modes of a stratum
                run_variant(gen(mode))



# ------------------------------------------------------------------ main
tables = {"groups": [[g.name, g.proper_subgroup.name] for g in _groups],
          "aliases": [[k, list(v)] for k, v in point_group_aliases.items()]}

# the alias clause for every named point group, on the implementation
for g in _groups:
    xm = CrystalMap.empty((2, 3))
    xm.phases[0].point_group = g
    path = os.path.join(TMP, "pg.ang")
    try:
        io.save(path, xm, overwrite=True)
        got = io.load(path).phases[1].point_group.name
    except Exception as e:  # noqa
        got = f"{type(e).__name__}"
    st("alias/" + g.name)
    if got != g.proper_subgroup.name:
        fail(f"point-group:{g.proper_subgroup.name}",
             f"point group {g.name}: proper point group {g.proper_subgroup.name} comes back as {got}",
             {"pg": g.name})

if ONLY:
    for sp in ONLY:
        if "variant" in sp:
            run_variant(sp)
        else:
            run_spec(sp)
else:
    forced = ["plain", "masked", "1d", "tiny", "three-in-data", "one-in-data", "column", "coarse-step",
              "blank-name", "ci-collision", "multi-layer", "kw", "kw-error", "big-coords"]
    for s in forced:
        run_spec(rand_spec(s))
    # every tiny grid (1-3 points, single row / column / point) in every run: the strata of repaired defects
    for t in TINY:
        run_spec(rand_spec("tiny", tiny=t))
    for _ in range(max(0, N - len(forced) - len(TINY))):
        run_spec(rand_spec())
    # audit strata (after the cases of the correspondence, so that those are the same as before for a given seed)
    run_audit(2 if N <= 500 else 12)

for f in os.listdir(TMP):
    try:
        os.remove(os.path.join(TMP, f))
    except OSError:
        pass
try:
    os.rmdir(TMP)
except OSError:
    pass

emit({"cases": cases, "fails": fails, "strata": strata, "tables": tables})
