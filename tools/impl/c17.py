"""C17 implementation harness: unique() of Object3d (Vector3d, Quaternion,
Miller), Rotation (Rotation, Orientation, Misorientation; antipodal True/False)
and Miller(use_symmetry) on /repo's working tree.

Emits  cases  (input + observed output, compared with the Coq model inside
Coq), fails (property oracle: an exact-arithmetic reference of the documented
equality, independent of the implementation's float rounding) and strata."""
import math
from fractions import Fraction

import numpy as np
from common import emit, payload, rand_unit_quat, rng, set_backend

from diffpy.structure import Lattice, Structure
from orix.crystal_map import Phase
from orix.quaternion import Misorientation, Orientation, Quaternion, Rotation
from orix.quaternion import symmetry as osym
from orix.vector import Miller, Vector3d

P = payload()
R = rng(P.get("seed", 0))
N = P.get("n", 300)

cases, fails, strata = [], [], {}
witness = {}


def st(k):
    strata[k] = strata.get(k, 0) + 1


def fail(sig, what, rep):
    fails.append({"sig": sig, "what": what, "replay": rep})


# ----------------------------------------------------------------- labels
def exact_round(x, dec):
    """(integer n = round-half-even(x * 10^dec) in exact arithmetic, ambiguous?)"""
    f = Fraction(float(x)) * (10 ** dec)
    n = math.floor(f)
    fr = f - n
    thr = Fraction(4e-16) * abs(Fraction(float(x))) * (10 ** dec) + Fraction(1, 10 ** 9)
    amb = abs(fr - Fraction(1, 2)) <= thr
    if fr > Fraction(1, 2) or (fr == Fraction(1, 2) and n % 2 == 1):
        n += 1
    return n, amb


def row_label(row, dec=10):
    lab, amb = [], False
    for x in row:
        n, a = exact_round(x, dec)
        lab.append(n)
        amb = amb or a
    return tuple(lab), amb


def is_zero_label(lab):
    """dropped by np.isclose(round10(x), 0): |n| * 1e-10 <= 1e-8"""
    return all(abs(n) <= 100 for n in lab), any(abs(n) == 100 for n in lab) and all(abs(n) <= 100 for n in lab)


def rot_label(q, imp, antipodal):
    if not antipodal:
        lab, amb = row_label(q, 10)
        return lab + (int(imp),), amb
    a, b, c, d = (Fraction(float(x)) for x in q)
    mon = [a * a, b * b, c * c, d * d, a * b, a * c, a * d, b * c, b * d, c * d]
    lab, amb = [], False
    for m in mon:
        f = m * 10 ** 12
        n = math.floor(f)
        fr = f - n
        if abs(fr - Fraction(1, 2)) <= Fraction(5, 10000):
            amb = True
        if fr > Fraction(1, 2) or (fr == Fraction(1, 2) and n % 2 == 1):
            n += 1
        lab.append(n)
    return tuple(lab) + (int(imp),), amb


def nub(seq):
    seen, out = set(), []
    for x in seq:
        if x not in seen:
            seen.add(x)
            out.append(x)
    return out


# ------------------------------------------------------------- generators
SHAPES = {1: [(1,), (1, 1)], 2: [(2,), (2, 1), (1, 2)], 3: [(3,), (3, 1)], 4: [(4,), (2, 2), (2, 1, 2)],
          6: [(6,), (2, 3), (3, 2), (1, 6)], 8: [(8,), (2, 4), (2, 2, 2), (4, 2)], 9: [(9,), (3, 3)],
          12: [(12,), (3, 4), (2, 3, 2), (6, 2)], 16: [(16,), (4, 4), (2, 2, 4)], 24: [(24,), (4, 6), (2, 3, 4)]}
GRID = [-2.0, -1.0, -0.5, -0.3, 0.0, 0.0, 0.125, 0.3, 1.0, 1.7, 3.0]
SMALL = [0.0, 0.0, 1e-12, -1e-12, 3e-11, -3e-11, 4.9e-11, -4.9e-11]
NOFF = [0, 0, 0, 0, 1, -1, 2]


def pick_size():
    return R.choice(list(SHAPES))


def gen_rows(dim, n):
    """rows with exact duplicates, near duplicates on both sides of the 1e-10
    rounding threshold, negated copies, exact / near zero rows"""
    pool = []
    for _ in range(R.choice([1, 2, 3, 5])):
        pool.append([R.choice(GRID) for _ in range(dim)])
    rows, kinds = [], []
    for _ in range(n):
        k = R.random()
        if k < 0.12:
            rows.append([0.0] * dim); kinds.append("zero")
        elif k < 0.20:
            z = R.choice([1e-9, 0.9e-8, 1.1e-8, 2e-8, 4e-11, -0.0])
            r = [0.0] * dim
            r[R.randrange(dim)] = z
            rows.append(r); kinds.append("nearzero")
        elif k < 0.30 and rows:
            rows.append(list(R.choice(rows))); kinds.append("exactdup")
        elif k < 0.38 and rows:
            rows.append([-x for x in R.choice(rows)]); kinds.append("negdup")
        elif k < 0.50:
            rows.append([R.gauss(0, 1) for _ in range(dim)]); kinds.append("random")
        else:
            g = R.choice(pool)
            rows.append([x + R.choice(NOFF) * 1e-10 + R.choice(SMALL) for x in g]); kinds.append("threshold")
    return rows, kinds


QGRID = [(0.5, 0.5, 0.5, 0.5), (0.6, 0.8, 0.0, 0.0), (0.36, 0.48, 0.8, 0.0), (0.1, 0.7, 0.5, 0.5),
         (0.1, 0.1, 0.7, 0.7), (0.2, 0.4, 0.4, 0.8), (1.0, 0.0, 0.0, 0.0), (0.0, 0.0, 1.0, 0.0),
         (0.28, 0.96, 0.0, 0.0), (0.9, 0.1, 0.3, 0.3)]
QSMALL = [0.0, 0.0, 1e-13, -2e-13, 3e-13, 8e-13, -1.2e-12, 3e-12, 4e-11, -7e-11, 1.3e-10, 1e-9]


def gen_quats(n):
    pool = []
    for _ in range(R.choice([1, 2, 3, 5])):
        q = list(R.choice(QGRID))
        R.shuffle(q)
        q = [x * R.choice([1, -1]) for x in q]
        pool.append(q)
    qs, imps, kinds = [], [], []
    for _ in range(n):
        k = R.random()
        if k < 0.15 and qs:
            j = R.randrange(len(qs)); qs.append(list(qs[j])); imps.append(imps[j]); kinds.append("exactdup")
        elif k < 0.30 and qs:
            j = R.randrange(len(qs)); qs.append([-x for x in qs[j]]); imps.append(imps[j]); kinds.append("antipodal")
        elif k < 0.40 and qs:
            j = R.randrange(len(qs)); qs.append(list(qs[j])); imps.append(not imps[j]); kinds.append("flagflip")
        elif k < 0.55:
            qs.append(rand_unit_quat(R)); imps.append(R.random() < 0.4); kinds.append("random")
        else:
            g = list(R.choice(pool))
            i = R.randrange(4)
            g[i] += R.choice(QSMALL)
            if R.random() < 0.3:
                g = [-x for x in g]
            qs.append(g); imps.append(R.random() < 0.3); kinds.append("threshold")
    return qs, imps, kinds


def shaped(arr, n, dim):
    shape = R.choice(SHAPES[n])
    return np.array(arr, dtype=float).reshape(shape + (dim,)), shape


# ------------------------------------------------------ base class oracle
def check_base(cls, flat, out, idx, inv, tag, rep):
    labs, amb = [], False
    for r in flat:
        l, a = row_label(r)
        z, za = is_zero_label(l)
        labs.append((l, z))
        amb = amb or a or za
    olabs = []
    for r in out:
        l, a = row_label(r)
        olabs.append(l)
        amb = amb or a
    if amb:
        st(f"oracle-skipped-ambiguous/{tag}")
        return
    nz = [j for j, (l, z) in enumerate(labs) if not z]
    nzl = [labs[j][0] for j in nz]
    want = nub(nzl)
    pre = f"unique:{cls}"
    if len(set(olabs)) != len(olabs):
        fail(f"{pre}:distinct", f"{cls}.unique returns two entries that are equal after rounding to 10 decimals", rep)
        return
    if set(olabs) - set(nzl):
        fail(f"{pre}:spurious", f"{cls}.unique returns an entry that is not a (non-zero) input entry", rep)
        return
    if set(nzl) - set(olabs):
        fail(f"{pre}:cover", f"{cls}.unique loses a non-zero input entry", rep)
        return
    if olabs != want:
        fail(f"{pre}:order", f"{cls}.unique does not keep the order of first appearance", rep)
    for k, l in enumerate(olabs):
        src = np.array(flat[nz[nzl.index(l)]])
        if np.max(np.abs(src - np.array(out[k]))) > 5.01e-11:
            fail(f"{pre}:value", f"{cls}.unique returns a value further than 5e-11 from its source entry", rep)
            break
    # index array: flat[idx[k]] must be the k-th returned entry
    if idx is not None:
        def sel(ix, through_nz):
            try:
                if len(ix) != len(olabs):
                    return False
                for k, i in enumerate(ix):
                    i = int(i)
                    if i < 0:
                        return False
                    j = nz[i] if through_nz else i
                    if labs[j][0] != olabs[k] or labs[j][1]:
                        return False
                return True
            except IndexError:
                return False
        if not sel(idx, False):
            if sel(sorted(idx), False):
                why = "sorted-order"
            elif sel(idx, True):
                why = "zero-offset"
            elif sel(sorted(idx), True):
                why = "sorted-order+zero-offset"
            else:
                why = "wrong"
            fail(f"{pre}:idx:{why}",
                 f"{cls}.unique(return_index=True): flat[idx[k]] is not the k-th returned entry ({why})", rep)
    # inverse array: one entry per non-dropped flattened entry, out[inv[j]] = that entry
    if inv is not None:
        ok = len(inv) == len(nz) and all(0 <= int(i) < len(olabs) for i in inv) and \
            all(olabs[int(i)] == nzl[j] for j, i in enumerate(inv))
        if not ok:
            S = sorted(set(nzl))
            if len(inv) == len(nz) and all(0 <= int(i) < len(S) for i in inv) and \
                    all(S[int(i)] == nzl[j] for j, i in enumerate(inv)):
                why = "sorted-order"
            else:
                why = "wrong"
            fail(f"{pre}:inv:{why}",
                 f"{cls}.unique(return_inverse=True): out[inv[j]] is not the j-th (non-zero) flattened entry ({why})",
                 rep)


def run_base(cls, arr, shape, tag, miller_phase=None, record=True):
    dim = arr.shape[-1]
    if cls == "Vector3d":
        obj = Vector3d(arr)
    elif cls == "Quaternion":
        obj = Quaternion(arr)
    else:
        obj = Miller(xyz=arr, phase=miller_phase)
    flat = obj.flatten().data.tolist()
    rep = {"cls": cls, "shape": list(shape), "data": arr.tolist()}
    try:
        if cls == "Miller":
            u, idx = obj.unique(return_index=True)
            u0 = obj.unique()
            inv = None
        else:
            u, idx, inv = obj.unique(return_index=True, return_inverse=True)
            u0 = obj.unique()
            _, idx_b = obj.unique(return_index=True)
            _, inv_b = obj.unique(return_inverse=True)
            if not (np.array_equal(idx, idx_b) and np.array_equal(inv, inv_b)):
                fail(f"unique:{cls}:flags", "the arrays returned depend on which flags are combined", rep)
    except Exception as e:  # noqa
        fail(f"unique:{cls}:raises", f"{cls}.unique raises {type(e).__name__}: {e}", rep)
        return
    out = u.data.reshape(-1, dim).tolist()
    if not np.array_equal(u0.data, u.data) or u.ndim != 1 or type(u) is not type(obj):
        fail(f"unique:{cls}:object", "returned object differs between flag combinations / is not flat / changes class", rep)
    if record:
        cases.append({"k": "base", "cls": cls, "dim": dim, "flat": flat, "out": out,
                      "idx": [int(i) for i in idx], "inv": None if inv is None else [int(i) for i in inv]})
    check_base(cls, flat, out, list(idx), None if inv is None else list(inv), tag, rep)
    return flat, out, idx, inv


# ---------------------------------------------------------- rotation oracle
def run_rot(cls, qs, imps, shape, antipodal, tag):
    q = np.array(qs, dtype=float).reshape(shape + (4,))
    imp = np.array(imps, dtype=bool).reshape(shape)
    if cls == "Rotation":
        r = Rotation(q)
    elif cls == "Orientation":
        r = Orientation(q, symmetry=osym.Oh)
    else:
        r = Misorientation(q, symmetry=(osym.D6, osym.Oh))
    r.improper = imp
    rep = {"cls": cls, "shape": list(shape), "q": q.tolist(), "improper": imp.tolist(), "antipodal": antipodal}
    f = r.flatten()
    fq, fi = f.data.tolist(), [bool(x) for x in f.improper]
    try:
        u, idx, inv = r.unique(return_index=True, return_inverse=True, antipodal=antipodal)
        u0 = r.unique(antipodal=antipodal)
        _, idx_b = r.unique(return_index=True, antipodal=antipodal)
        _, inv_b = r.unique(return_inverse=True, antipodal=antipodal)
    except Exception as e:  # noqa
        fail(f"unique:{cls}:raises", f"{cls}.unique raises {type(e).__name__}: {e}", rep)
        return
    pre = f"unique:{cls}"
    if not (np.array_equal(idx, idx_b) and np.array_equal(inv, inv_b) and np.array_equal(u0.data, u.data)
            and np.array_equal(u0.improper, u.improper)):
        fail(f"{pre}:flags", "the values returned depend on which flags are combined", rep)
    if type(u) is not type(r) or u.ndim != 1:
        fail(f"{pre}:object", "returned object is not flat / changes class", rep)
    oq, oi = u.data.reshape(-1, 4).tolist(), [bool(x) for x in u.improper.reshape(-1)]
    cases.append({"k": "rot", "cls": cls, "antipodal": antipodal, "q": fq, "imp": fi, "oq": oq, "oi": oi,
                  "idx": [int(i) for i in idx], "inv": [int(i) for i in inv]})
    labs, amb = [], False
    for a, b in zip(fq, fi):
        l, am = rot_label(a, b, antipodal)
        labs.append(l); amb = amb or am
    olabs = []
    for a, b in zip(oq, oi):
        l, am = rot_label(a, b, antipodal)
        olabs.append(l); amb = amb or am
    if amb:
        st(f"oracle-skipped-ambiguous/{tag}")
        return
    if len(set(olabs)) != len(olabs):
        fail(f"{pre}:distinct", f"{cls}.unique(antipodal={antipodal}) returns two equal rotations", rep); return
    if set(olabs) != set(labs):
        fail(f"{pre}:cover", f"{cls}.unique(antipodal={antipodal}) loses or invents a rotation", rep); return
    if olabs != nub(labs):
        fail(f"{pre}:order", f"{cls}.unique(antipodal={antipodal}) does not keep the order of first appearance", rep)
    # (Rotation.__getitem__ re-normalises, so the returned quaternion may differ from the stored one by an ulp)
    ok = len(idx) == len(oq) and all(0 <= int(i) < len(fq) for i in idx) and \
        all(max(abs(x - y) for x, y in zip(fq[int(i)], oq[k])) <= 1e-14 and fi[int(i)] == oi[k]
            for k, i in enumerate(idx))
    if not ok:
        fail(f"{pre}:idx", f"{cls}.unique(antipodal={antipodal}): flat[idx[k]] is not the k-th returned rotation", rep)
    elif list(idx) != sorted(idx) or any(labs.index(labs[int(i)]) != int(i) for i in idx):
        fail(f"{pre}:idx:not-first", f"{cls}.unique: idx is not the increasing list of first occurrences", rep)
    ok = len(inv) == len(fq) and all(0 <= int(i) < len(oq) for i in inv) and \
        all(olabs[int(i)] == labs[j] for j, i in enumerate(inv))
    if not ok:
        fail(f"{pre}:inv", f"{cls}.unique(antipodal={antipodal}): out[inv[j]] is not the j-th flattened rotation", rep)
    # semantic check independent of the rounding model: merged rotations are the same rotation
    for j, i in enumerate(inv):
        if 0 <= int(i) < len(oq):
            d = abs(float(np.dot(oq[int(i)], fq[j])))
            if antipodal and (abs(d - 1) > 1e-9 or oi[int(i)] != fi[j]):
                fail(f"{pre}:merge", "rotations merged by unique differ by more than the tolerance", rep); break


# ------------------------------------------------------------ Miller oracle
PHASES = []


def phases():
    if not PHASES:
        PHASES.append(("m-3m", Phase(point_group="m-3m")))
        PHASES.append(("-1", Phase(point_group="-1",
                                   structure=Structure(lattice=Lattice(3, 4, 5, 80, 95, 100)))))
        PHASES.append(("6/mmm", Phase(point_group="6/mmm",
                                      structure=Structure(lattice=Lattice(3, 3, 5, 90, 90, 120)))))
        PHASES.append(("mmm", Phase(point_group="mmm", structure=Structure(lattice=Lattice(3, 4, 5, 90, 90, 90)))))
        PHASES.append(("4/mmm", Phase(point_group="4/mmm",
                                      structure=Structure(lattice=Lattice(3, 3, 5, 90, 90, 90)))))
        PHASES.append(("432", Phase(point_group="432")))
    return PHASES


def gen_miller(n, ph):
    pg = ph.point_group
    hkls, kinds = [], []
    for _ in range(n):
        k = R.random()
        if k < 0.1:
            hkls.append([0, 0, 0]); kinds.append("zero")
        elif k < 0.3 and hkls:
            h = R.choice(hkls)
            hkls.append(h if isinstance(h, tuple) else list(h)); kinds.append("exactdup")
        elif k < 0.6 and hkls:
            kinds.append("equivalent")
            hkls.append(("sym", R.randrange(len(hkls)), R.randrange(pg.size)))
        else:
            hkls.append([R.randint(-3, 3) for _ in range(3)]); kinds.append("random")
    fmt = R.choice(["hkl", "uvw"])
    base = [h if isinstance(h, list) else [0, 0, 0] for h in hkls]
    m = Miller(**{fmt: np.array(base, dtype=float)}, phase=ph)
    xyz = m.data.copy()
    for i, h in enumerate(hkls):
        if isinstance(h, tuple):
            _, j, g = h
            xyz[i] = (pg[g] * Vector3d(xyz[j])).data.reshape(3)
    return xyz, kinds


def run_miller_sym(name, ph, xyz, shape, tag, record=True):
    m = Miller(xyz=np.array(xyz, dtype=float).reshape(shape + (3,)), phase=ph)
    flat = m.flatten().data.tolist()
    pg = ph.point_group
    rep = {"cls": "Miller", "point_group": name, "shape": list(shape), "xyz": np.array(xyz).tolist(),
           "use_symmetry": True}
    try:
        u, idx = m.unique(use_symmetry=True, return_index=True)
        u0 = m.unique(use_symmetry=True)
    except Exception as e:  # noqa
        fail("unique:Miller:sym:raises", f"Miller.unique(use_symmetry=True) raises {type(e).__name__}: {e}", rep)
        return
    out = u.data.reshape(-1, 3).tolist()
    if not np.array_equal(u0.data, u.data) or not isinstance(u, Miller) or u.phase is not m.phase \
            or u.coordinate_format != m.coordinate_format:
        fail("unique:Miller:sym:object", "returned Miller differs between flags or loses phase/format", rep)
    if record:
        cases.append({"k": "mil", "pg": name, "ops": pg.data.tolist(), "opsi": [bool(x) for x in pg.improper],
                      "flat": flat, "out": out, "idx": [int(i) for i in idx]})
    # reference: orbits with a tolerance (inputs are well separated), base result by exact labels
    labs = []
    for r in flat:
        l, a = row_label(r)
        z, za = is_zero_label(l)
        if a or za:
            st(f"oracle-skipped-ambiguous/{tag}")
            return
        labs.append((l, z))
    nz = [j for j, (l, z) in enumerate(labs) if not z]
    vb_pos = [nz[[labs[j][0] for j in nz].index(l)] for l in nub([labs[j][0] for j in nz])]
    vb = [np.round(np.array(flat[j]), 10) for j in vb_pos]
    mats = pg.to_matrix() * np.where(pg.improper, -1.0, 1.0)[:, None, None]

    def cls_of(v, reps):
        v = np.asarray(v)
        for c, r in enumerate(reps):
            dmin = np.min(np.max(np.abs(np.einsum("gij,j->gi", mats, r) - v), axis=1))
            if dmin < 1e-7:
                return c
            if dmin < 1e-5:
                return "amb"
        return None

    reps, fcls = [], []
    for j in nz:
        c = cls_of(flat[j], reps)
        if c == "amb":
            st(f"oracle-skipped-ambiguous/{tag}"); return
        if c is None:
            reps.append(np.array(flat[j])); c = len(reps) - 1
        fcls.append(c)
    ocls = [cls_of(o, reps) for o in out]
    pre = "unique:Miller:sym"
    if None in ocls or "amb" in ocls:
        fail(f"{pre}:spurious", "Miller.unique(use_symmetry=True) returns a vector not equivalent to any input", rep)
        return
    if len(set(ocls)) != len(ocls):
        # explained by the double rounding (vector rounded to 10 decimals, images rounded again)?
        # the orbit keys as the library computes them (its own outer product, so that not even the last
        # bit differs): images of the returned (already rounded) vectors, rounded to 10 decimals, sorted
        _v2 = pg.outer(Vector3d(np.array(out))).flatten().reshape(len(out), pg.size).data.round(10) + 0.0

        def okey(v):
            k = next(i for i in range(len(out)) if v is out[i])
            o = _v2[k]
            return o[np.lexsort(o.T)]
        why = ":rounding-threshold"
        for a in range(len(out)):
            for b in range(a + 1, len(out)):
                if ocls[a] == ocls[b]:
                    # distance between the two rounded orbits AS SETS (a one-step difference also permutes the
                    # lexicographic order of the rows): every row of one has a row of the other within dk
                    ka, kb = okey(out[a]), okey(out[b])
                    dd = np.max(np.abs(ka[:, None, :] - kb[None, :, :]), axis=2)
                    dk = max(np.max(np.min(dd, axis=1)), np.max(np.min(dd, axis=0)))
                    # explained only if the two rounded orbit keys DIFFER, by one rounding step: with equal
                    # keys the documented procedure merges the two vectors
                    if dk > 2.5e-10 or dk == 0:
                        why = ""
        fail(f"{pre}:distinct{why}", "Miller.unique(use_symmetry=True) returns two symmetrically equivalent vectors"
             + (" (their 10-decimal rounded orbits differ by one rounding step)" if why else ""), rep)
        return
    if set(ocls) != set(fcls):
        fail(f"{pre}:cover", "Miller.unique(use_symmetry=True) loses an orbit", rep)
        return
    for o in out:
        if min(np.max(np.abs(np.array(o) - np.array(flat[j]))) for j in nz) > 5.01e-11:
            fail(f"{pre}:value", "returned vector is not (a rounding of) an input vector", rep)
            break
    if ocls != nub(fcls):
        fail(f"{pre}:order", "Miller.unique(use_symmetry=True) does not keep the order of first appearance", rep)
    ok = len(idx) == len(out) and all(0 <= int(i) < len(flat) for i in idx) and \
        all(np.max(np.abs(np.array(flat[int(i)]) - np.array(out[k]))) <= 5.01e-11 for k, i in enumerate(idx))
    if not ok:
        rid = list(idx)[::-1]
        if len(idx) == len(out) and all(0 <= int(i) < len(vb) for i in rid) and \
                all(np.max(np.abs(vb[int(i)] - np.array(out[k]))) <= 1e-12 for k, i in enumerate(rid)):
            why = "into-base-result-reversed"
        else:
            why = "wrong"
        fail(f"{pre}:idx:{why}",
             f"Miller.unique(use_symmetry=True, return_index=True): flat[idx[k]] is not the k-th returned vector ({why})",
             rep)


# =================================================================== run
def replay_one(rep):
    """re-run one stored failing input (the `replay` object of a failure)"""
    if rep.get("empty"):
        cls = {"Rotation": Rotation, "Orientation": Orientation, "Misorientation": Misorientation}[rep["cls"]]
        res = cls.empty().unique(return_index=rep["return_index"], return_inverse=rep["return_inverse"])
        ar = len(res) if isinstance(res, tuple) else 1
        if ar != 1 + int(rep["return_index"]) + int(rep["return_inverse"]):
            fail(f"unique:{rep['cls']}:empty:arity", f"returns {ar} value(s)", rep)
        elif type((res if ar > 1 else (res,))[0]) is not cls or (res if ar > 1 else (res,))[0].size != 0 or \
                any(np.asarray(a).shape != (0,) or np.asarray(a).dtype.kind != "i" for a in (res[1:] if ar > 1 else ())):
            fail(f"unique:{rep['cls']}:empty:values", "does not return an empty object and empty index arrays", rep)
    elif rep.get("use_symmetry"):
        ph = dict(phases())[rep["point_group"]]
        run_miller_sym(rep["point_group"], ph, rep["xyz"], tuple(rep["shape"]), "replay")
    elif "q" in rep:
        q = np.array(rep["q"], float)
        run_rot(rep["cls"], q.reshape(-1, 4).tolist(), np.array(rep["improper"]).reshape(-1).tolist(),
                tuple(rep["shape"]), rep["antipodal"], "replay")
    else:
        run_base(rep["cls"], np.array(rep["data"], float), tuple(rep["shape"]), "replay",
                 miller_phase=phases()[0][1] if rep["cls"] == "Miller" else None)


if "replay" in P:
    replay_one(P["replay"])
    emit({"cases": cases, "fails": fails, "strata": strata, "witness": {}})
else:
    # ---- the witnesses / examples of Proofs/C17Witness.v, replayed on the implementation
    w = run_base("Vector3d", np.array([[3, 0, 0], [1, 0, 0], [3, 0, 0], [2, 0, 0]], float), (4,), "witness")
    witness["base_order"] = None if w is None else {"out": w[1], "idx": [int(i) for i in w[2]], "inv": [int(i) for i in w[3]]}
    w = run_base("Vector3d", np.array([[0, 0, 0], [5, 0, 0]], float), (2,), "witness")
    witness["base_zero"] = None if w is None else {"out": w[1], "idx": [int(i) for i in w[2]], "inv": [int(i) for i in w[3]]}
    run_miller_sym("-1", phases()[1][1], [[1, 0, 0], [0, 1, 0], [-1, 0, 0], [0, 0, 1]], (4,), "witness")
    witness["miller_sym"] = {"out": cases[-1]["out"], "idx": cases[-1]["idx"]}
    for cls in (Rotation, Orientation, Misorientation):
        e = cls.empty()
        for ri, rv in ((True, False), (False, True), (True, True)):
            res = e.unique(return_index=ri, return_inverse=rv)
            ar = len(res) if isinstance(res, tuple) else 1
            st("rot/empty")
            if ar != 1 + int(ri) + int(rv):
                fail(f"unique:{cls.__name__}:empty:arity",
                     f"{cls.__name__}.empty().unique(return_index={ri}, return_inverse={rv}) returns {ar} value(s)",
                     {"cls": cls.__name__, "empty": True, "return_index": ri, "return_inverse": rv})
            elif type(res[0]) is not cls or res[0].size != 0 or \
                    any(np.asarray(a).shape != (0,) or np.asarray(a).dtype.kind != "i" for a in res[1:]):
                fail(f"unique:{cls.__name__}:empty:values",
                     f"{cls.__name__}.empty().unique(return_index={ri}, return_inverse={rv}) does not return an "
                     "empty object and empty integer index arrays",
                     {"cls": cls.__name__, "empty": True, "return_index": ri, "return_inverse": rv})
        if e.unique().size != 0:
            fail(f"unique:{cls.__name__}:empty:size", "unique of an empty object is not empty", {"cls": cls.__name__})
    witness["rot_empty_arity"] = {c.__name__: (lambda r: len(r) if isinstance(r, tuple) else 1)(
        c.empty().unique(return_index=True, return_inverse=True)) for c in (Rotation,)}

    # ---- base class
    nb = max(N * 2 // 5, 20)
    for k in range(nb):
        cls = R.choice(["Vector3d", "Vector3d", "Quaternion", "Miller"])
        dim = 4 if cls == "Quaternion" else 3
        n = pick_size()
        rows, kinds = gen_rows(dim, n)
        arr, shape = shaped(rows, n, dim)
        tag = f"base/{cls}/ndim={len(shape)}"
        st(tag)
        for kd in set(kinds):
            st(f"base/kind={kd}")
        run_base(cls, arr, shape, tag, miller_phase=R.choice(phases())[1] if cls == "Miller" else None)

    # ---- rotations
    nr = max(N * 2 // 5, 20)
    for k in range(nr):
        set_backend(k % 4 != 0)
        cls = R.choice(["Rotation", "Rotation", "Orientation", "Misorientation"])
        n = pick_size()
        qs, imps, kinds = gen_quats(n)
        shape = R.choice(SHAPES[n])
        antipodal = R.random() < 0.6
        tag = f"rot/{cls}/antipodal={antipodal}/ndim={len(shape)}"
        st(tag)
        for kd in set(kinds):
            st(f"rot/kind={kd}")
        run_rot(cls, qs, imps, shape, antipodal, tag)
    set_backend(True)

    # ---- Miller with symmetry
    nm = max(N // 8, 10)
    for k in range(nm):
        set_backend(k % 3 != 0)
        name, ph = R.choice(phases())
        n = R.choice([2, 3, 4, 6, 8, 9, 12])
        xyz, kinds = gen_miller(n, ph)
        shape = R.choice(SHAPES[n])
        tag = f"miller-sym/{name}/ndim={len(shape)}"
        st(tag)
        for kd in set(kinds):
            st(f"miller-sym/kind={kd}")
        run_miller_sym(name, ph, xyz, shape, tag)
    set_backend(True)

    # ---- corpus (stored regression inputs) first
    for rep in P.get("corpus", []):
        st("corpus")
        replay_one(rep)

    # ---- bounded-exhaustive: every list up to length L over a small alphabet
    import itertools
    L = P.get("exhaustive", 3)
    VA = [[0.0, 0.0, 0.0], [1.0, 0.3, -2.0], [-1.0, -0.3, 2.0], [1.0 + 3e-11, 0.3, -2.0],
          [1.0 + 1e-10, 0.3, -2.0], [0.5, 0.0, 0.0]]
    h = (0.5, 0.5, 0.5, 0.5)
    QA = [(h, False), (tuple(-x for x in h), False), (h, True), ((0.6, 0.8, 0.0, 0.0), False),
          ((0.5 + 1.3e-13, 0.5, 0.5, 0.5), False), ((0.5 + 1.3e-11, 0.5, 0.5, 0.5), False)]
    for n in range(1, L + 1):
        for tup in itertools.product(VA, repeat=n):
            st(f"exhaustive/base/len={n}")
            run_base("Vector3d", np.array(tup, float), (n,), "exhaustive/base")
        for tup in itertools.product(QA, repeat=n):
            for ap in (True, False):
                st(f"exhaustive/rot/len={n}")
                run_rot("Rotation", [list(t[0]) for t in tup], [t[1] for t in tup], (n,), ap, "exhaustive/rot")
    MA = [[1.0, 0.0, 0.0], [0.0, 1.0, 0.0], [-1.0, 0.0, 0.0], [1.0, 1.0, 0.0], [0.0, 0.0, 0.0]]
    for n in range(1, min(L, 3) + 1):
        for tup in itertools.product(MA, repeat=n):
            st(f"exhaustive/miller-sym/len={n}")
            run_miller_sym("4/mmm", dict(phases())["4/mmm"], [list(t) for t in tup], (n,), "exhaustive/miller-sym")

    # ---- assumptions tested differentially: np.unique and np.round
    for k in range(max(N // 8, 10)):
        n = R.choice([1, 2, 5, 9, 14])
        w_ = R.choice([1, 2, 3, 5])
        vals = [R.choice([0.0, -0.0, 1.0, -1.0, 0.5, 2.0, 1e-10, -1e-10]) for _ in range(4)] + [R.gauss(0, 1)]
        rows = [[R.choice(vals) for _ in range(w_)] for _ in range(n)]
        a = np.array(rows, dtype=float)
        _, idx, inv = np.unique(a, axis=0, return_index=True, return_inverse=True)
        cases.append({"k": "npu", "rows": rows, "idx": [int(i) for i in idx], "inv": [int(i) for i in np.ravel(inv)]})
        st("np.unique")
    xs = []
    for k in range(max(N // 2, 60)):
        c = R.random()
        if c < 0.3:
            xs.append(R.gauss(0, 1) * 10 ** R.randint(-12, 2))
        elif c < 0.7:
            xs.append(R.choice(GRID) + R.choice([0, 1, -1, 2, 3]) * 1e-10 + R.choice([5e-11, -5e-11, 4.9e-11, 5.1e-11, 0, 1e-13]))
        else:
            xs.append(R.choice([0.25, 0.36, 0.01, 0.49, 0.0625]) + R.choice([5e-13, -5e-13, 4.9e-13, 1.5e-12, 0]))
    xa = np.array(xs)
    cases.append({"k": "round", "x": xs, "r10": np.round(xa, 10).tolist(), "r12": np.round(xa, 12).tolist()})
    st("np.round")

    emit({"cases": cases, "fails": fails, "strata": strata, "witness": witness})
