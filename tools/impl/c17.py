"""C17 implementation harness: unique() of Object3d (Vector3d, Quaternion,
Miller), Rotation (Rotation, Orientation, Misorientation; antipodal True/False)
and Miller(use_symmetry) on /repo's working tree.

Emits  cases  (input + observed output, compared with the Coq model inside
Coq), fails (property oracle: an exact-arithmetic reference of the documented
equality, independent of the implementation's float rounding) and strata.

The "audit" strata (AUDIT, near the end) reach the secondary entry points: subclasses
that inherit unique (AxAngle, Rodrigues, Homochoric, SphericalRegion, FundamentalSector;
Symmetry, OrientationRegion, Orientation / Misorientation with their symmetries), empty
objects, integer / low-precision dtypes, Miller built from hkl / uvw / hkil / UVTW,
positional flags, objects with a history, large and many-axis shapes, groups built
through unique() and further point groups; oracle only (no Coq cases)."""
import math
from fractions import Fraction

import numpy as np
from common import emit, payload, rand_unit_quat, rng, set_backend

from diffpy.structure import Lattice, Structure
from orix.crystal_map import Phase
from orix.quaternion import Misorientation, Orientation, OrientationRegion, Quaternion, Rotation, Symmetry
from orix.quaternion import symmetry as osym
from orix.vector import AxAngle, FundamentalSector, Homochoric, Miller, Rodrigues, SphericalRegion, Vector3d

P = payload()
R = rng(P.get("seed", 0))
N = P.get("n", 300)

cases, fails, strata = [], [], {}
witness = {}


def st(k):
    strata[k] = strata.get(k, 0) + 1


def fail(sig, what, rep):
    fails.append({"sig": sig, "what": what, "replay": rep})


# ----------------------------------------------------------------- labels
def exact_round(x, dec):
    """(integer n = round-half-even(x * 10^dec) in exact arithmetic, ambiguous?)"""
    f = Fraction(float(x)) * (10 ** dec)
    n = math.floor(f)
    fr = f - n
    thr = Fraction(4e-16) * abs(Fraction(float(x))) * (10 ** dec) + Fraction(1, 10 ** 9)
    amb = abs(fr - Fraction(1, 2)) <= thr
    if fr > Fraction(1, 2) or (fr == Fraction(1, 2) and n % 2 == 1):
        n += 1
    return n, amb


def row_label(row, dec=10):
    lab, amb = [], False
    for x in row:
        n, a = exact_round(x, dec)
        lab.append(n)
        amb = amb or a
    return tuple(lab), amb


def is_zero_label(lab):
    """dropped by np.isclose(round10(x), 0): |n| * 1e-10 <= 1e-8"""
    return all(abs(n) <= 100 for n in lab), any(abs(n) == 100 for n in lab) and all(abs(n) <= 100 for n in lab)


def rot_label(q, imp, antipodal):
    if not antipodal:
        lab, amb = row_label(q, 10)
        return lab + (int(imp),), amb
    a, b, c, d = (Fraction(float(x)) for x in q)
    mon = [a * a, b * b, c * c, d * d, a * b, a * c, a * d, b * c, b * d, c * d]
    lab, amb = [], False
    for m in mon:
        f = m * 10 ** 12
        n = math.floor(f)
        fr = f - n
        if abs(fr - Fraction(1, 2)) <= Fraction(5, 10000):
            amb = True
        if fr > Fraction(1, 2) or (fr == Fraction(1, 2) and n % 2 == 1):
            n += 1
        lab.append(n)
    return tuple(lab) + (int(imp),), amb


def nub(seq):
    seen, out = set(), []
    for x in seq:
        if x not in seen:
            seen.add(x)
            out.append(x)
    return out


# ------------------------------------------------------------- generators
SHAPES = {1: [(1,), (1, 1)], 2: [(2,), (2, 1), (1, 2)], 3: [(3,), (3, 1)], 4: [(4,), (2, 2), (2, 1, 2)],
          6: [(6,), (2, 3), (3, 2), (1, 6)], 8: [(8,), (2, 4), (2, 2, 2), (4, 2)], 9: [(9,), (3, 3)],
          12: [(12,), (3, 4), (2, 3, 2), (6, 2)], 16: [(16,), (4, 4), (2, 2, 4)], 24: [(24,), (4, 6), (2, 3, 4)]}
GRID = [-2.0, -1.0, -0.5, -0.3, 0.0, 0.0, 0.125, 0.3, 1.0, 1.7, 3.0]
SMALL = [0.0, 0.0, 1e-12, -1e-12, 3e-11, -3e-11, 4.9e-11, -4.9e-11]
NOFF = [0, 0, 0, 0, 1, -1, 2]


def pick_size():
    return R.choice(list(SHAPES))


def gen_rows(dim, n):
    """rows with exact duplicates, near duplicates on both sides of the 1e-10
    rounding threshold, negated copies, exact / near zero rows"""
    pool = []
    for _ in range(R.choice([1, 2, 3, 5])):
        pool.append([R.choice(GRID) for _ in range(dim)])
    rows, kinds = [], []
    for _ in range(n):
        k = R.random()
        if k < 0.12:
            rows.append([0.0] * dim); kinds.append("zero")
        elif k < 0.20:
            z = R.choice([1e-9, 0.9e-8, 1.1e-8, 2e-8, 4e-11, -0.0])
            r = [0.0] * dim
            r[R.randrange(dim)] = z
            rows.append(r); kinds.append("nearzero")
        elif k < 0.30 and rows:
            rows.append(list(R.choice(rows))); kinds.append("exactdup")
        elif k < 0.38 and rows:
            rows.append([-x for x in R.choice(rows)]); kinds.append("negdup")
        elif k < 0.50:
            rows.append([R.gauss(0, 1) for _ in range(dim)]); kinds.append("random")
        else:
            g = R.choice(pool)
            rows.append([x + R.choice(NOFF) * 1e-10 + R.choice(SMALL) for x in g]); kinds.append("threshold")
    return rows, kinds


QGRID = [(0.5, 0.5, 0.5, 0.5), (0.6, 0.8, 0.0, 0.0), (0.36, 0.48, 0.8, 0.0), (0.1, 0.7, 0.5, 0.5),
         (0.1, 0.1, 0.7, 0.7), (0.2, 0.4, 0.4, 0.8), (1.0, 0.0, 0.0, 0.0), (0.0, 0.0, 1.0, 0.0),
         (0.28, 0.96, 0.0, 0.0), (0.9, 0.1, 0.3, 0.3)]
QSMALL = [0.0, 0.0, 1e-13, -2e-13, 3e-13, 8e-13, -1.2e-12, 3e-12, 4e-11, -7e-11, 1.3e-10, 1e-9]


def gen_quats(n):
    pool = []
    for _ in range(R.choice([1, 2, 3, 5])):
        q = list(R.choice(QGRID))
        R.shuffle(q)
        q = [x * R.choice([1, -1]) for x in q]
        pool.append(q)
    qs, imps, kinds = [], [], []
    for _ in range(n):
        k = R.random()
        if k < 0.15 and qs:
            j = R.randrange(len(qs)); qs.append(list(qs[j])); imps.append(imps[j]); kinds.append("exactdup")
        elif k < 0.30 and qs:
            j = R.randrange(len(qs)); qs.append([-x for x in qs[j]]); imps.append(imps[j]); kinds.append("antipodal")
        elif k < 0.40 and qs:
            j = R.randrange(len(qs)); qs.append(list(qs[j])); imps.append(not imps[j]); kinds.append("flagflip")
        elif k < 0.55:
            qs.append(rand_unit_quat(R)); imps.append(R.random() < 0.4); kinds.append("random")
        else:
            g = list(R.choice(pool))
            i = R.randrange(4)
            g[i] += R.choice(QSMALL)
            if R.random() < 0.3:
                g = [-x for x in g]
            qs.append(g); imps.append(R.random() < 0.3); kinds.append("threshold")
    return qs, imps, kinds


def shaped(arr, n, dim):
    shape = R.choice(SHAPES[n])
    return np.array(arr, dtype=float).reshape(shape + (dim,)), shape


# ------------------------------------------------------ base class oracle
def check_base(cls, flat, out, idx, inv, tag, rep):
    labs, amb = [], False
    for r in flat:
        l, a = row_label(r)
        z, za = is_zero_label(l)
        labs.append((l, z))
        amb = amb or a or za
    olabs = []
    for r in out:
        l, a = row_label(r)
        olabs.append(l)
        amb = amb or a
    if amb:
        st(f"oracle-skipped-ambiguous/{tag}")
        return
    nz = [j for j, (l, z) in enumerate(labs) if not z]
    nzl = [labs[j][0] for j in nz]
    want = nub(nzl)
    pre = f"unique:{cls}"
    if len(set(olabs)) != len(olabs):
        fail(f"{pre}:distinct", f"{cls}.unique returns two entries that are equal after rounding to 10 decimals", rep)
        return
    if set(olabs) - set(nzl):
        fail(f"{pre}:spurious", f"{cls}.unique returns an entry that is not a (non-zero) input entry", rep)
        return
    if set(nzl) - set(olabs):
        fail(f"{pre}:cover", f"{cls}.unique loses a non-zero input entry", rep)
        return
    if olabs != want:
        fail(f"{pre}:order", f"{cls}.unique does not keep the order of first appearance", rep)
    for k, l in enumerate(olabs):
        src = np.array(flat[nz[nzl.index(l)]])
        if np.max(np.abs(src - np.array(out[k]))) > 5.01e-11:
            fail(f"{pre}:value", f"{cls}.unique returns a value further than 5e-11 from its source entry", rep)
            break
    # index array: flat[idx[k]] must be the k-th returned entry
    if idx is not None:
        def sel(ix, through_nz):
            try:
                if len(ix) != len(olabs):
                    return False
                for k, i in enumerate(ix):
                    i = int(i)
                    if i < 0:
                        return False
                    j = nz[i] if through_nz else i
                    if labs[j][0] != olabs[k] or labs[j][1]:
                        return False
                return True
            except IndexError:
                return False
        if not sel(idx, False):
            if sel(sorted(idx), False):
                why = "sorted-order"
            elif sel(idx, True):
                why = "zero-offset"
            elif sel(sorted(idx), True):
                why = "sorted-order+zero-offset"
            else:
                why = "wrong"
            fail(f"{pre}:idx:{why}",
                 f"{cls}.unique(return_index=True): flat[idx[k]] is not the k-th returned entry ({why})", rep)
    # inverse array: one entry per non-dropped flattened entry, out[inv[j]] = that entry
    if inv is not None:
        ok = len(inv) == len(nz) and all(0 <= int(i) < len(olabs) for i in inv) and \
            all(olabs[int(i)] == nzl[j] for j, i in enumerate(inv))
        if not ok:
            S = sorted(set(nzl))
            if len(inv) == len(nz) and all(0 <= int(i) < len(S) for i in inv) and \
                    all(S[int(i)] == nzl[j] for j, i in enumerate(inv)):
                why = "sorted-order"
            else:
                why = "wrong"
            fail(f"{pre}:inv:{why}",
                 f"{cls}.unique(return_inverse=True): out[inv[j]] is not the j-th (non-zero) flattened entry ({why})",
                 rep)


def run_base(cls, arr, shape, tag, miller_phase=None, record=True):
    dim = arr.shape[-1]
    if cls == "Vector3d":
        obj = Vector3d(arr)
    elif cls == "Quaternion":
        obj = Quaternion(arr)
    else:
        obj = Miller(xyz=arr, phase=miller_phase)
    flat = obj.flatten().data.tolist()
    rep = {"cls": cls, "shape": list(shape), "data": arr.tolist()}
    try:
        if cls == "Miller":
            u, idx = obj.unique(return_index=True)
            u0 = obj.unique()
            inv = None
        else:
            u, idx, inv = obj.unique(return_index=True, return_inverse=True)
            u0 = obj.unique()
            _, idx_b = obj.unique(return_index=True)
            _, inv_b = obj.unique(return_inverse=True)
            if not (np.array_equal(idx, idx_b) and np.array_equal(inv, inv_b)):
                fail(f"unique:{cls}:flags", "the arrays returned depend on which flags are combined", rep)
    except Exception as e:  # noqa
        fail(f"unique:{cls}:raises", f"{cls}.unique raises {type(e).__name__}: {e}", rep)
        return
    out = u.data.reshape(-1, dim).tolist()
    if not np.array_equal(u0.data, u.data) or u.ndim != 1 or type(u) is not type(obj):
        fail(f"unique:{cls}:object", "returned object differs between flag combinations / is not flat / changes class", rep)
    if record:
        cases.append({"k": "base", "cls": cls, "dim": dim, "flat": flat, "out": out,
                      "idx": [int(i) for i in idx], "inv": None if inv is None else [int(i) for i in inv]})
    check_base(cls, flat, out, list(idx), None if inv is None else list(inv), tag, rep)
    return flat, out, idx, inv


# ---------------------------------------------------------- rotation oracle
def run_rot(cls, qs, imps, shape, antipodal, tag):
    q = np.array(qs, dtype=float).reshape(shape + (4,))
    imp = np.array(imps, dtype=bool).reshape(shape)
    if cls == "Rotation":
        r = Rotation(q)
    elif cls == "Orientation":
        r = Orientation(q, symmetry=osym.Oh)
    else:
        r = Misorientation(q, symmetry=(osym.D6, osym.Oh))
    r.improper = imp
    rep = {"cls": cls, "shape": list(shape), "q": q.tolist(), "improper": imp.tolist(), "antipodal": antipodal}
    f = r.flatten()
    fq, fi = f.data.tolist(), [bool(x) for x in f.improper]
    try:
        u, idx, inv = r.unique(return_index=True, return_inverse=True, antipodal=antipodal)
        u0 = r.unique(antipodal=antipodal)
        _, idx_b = r.unique(return_index=True, antipodal=antipodal)
        _, inv_b = r.unique(return_inverse=True, antipodal=antipodal)
    except Exception as e:  # noqa
        fail(f"unique:{cls}:raises", f"{cls}.unique raises {type(e).__name__}: {e}", rep)
        return
    pre = f"unique:{cls}"
    if not (np.array_equal(idx, idx_b) and np.array_equal(inv, inv_b) and np.array_equal(u0.data, u.data)
            and np.array_equal(u0.improper, u.improper)):
        fail(f"{pre}:flags", "the values returned depend on which flags are combined", rep)
    if type(u) is not type(r) or u.ndim != 1:
        fail(f"{pre}:object", "returned object is not flat / changes class", rep)
    oq, oi = u.data.reshape(-1, 4).tolist(), [bool(x) for x in u.improper.reshape(-1)]
    cases.append({"k": "rot", "cls": cls, "antipodal": antipodal, "q": fq, "imp": fi, "oq": oq, "oi": oi,
                  "idx": [int(i) for i in idx], "inv": [int(i) for i in inv]})
    labs, amb = [], False
    for a, b in zip(fq, fi):
        l, am = rot_label(a, b, antipodal)
        labs.append(l); amb = amb or am
    olabs = []
    for a, b in zip(oq, oi):
        l, am = rot_label(a, b, antipodal)
        olabs.append(l); amb = amb or am
    if amb:
        st(f"oracle-skipped-ambiguous/{tag}")
        return
    if len(set(olabs)) != len(olabs):
        fail(f"{pre}:distinct", f"{cls}.unique(antipodal={antipodal}) returns two equal rotations", rep); return
    if set(olabs) != set(labs):
        fail(f"{pre}:cover", f"{cls}.unique(antipodal={antipodal}) loses or invents a rotation", rep); return
    if olabs != nub(labs):
        fail(f"{pre}:order", f"{cls}.unique(antipodal={antipodal}) does not keep the order of first appearance", rep)
    # (Rotation.__getitem__ re-normalises, so the returned quaternion may differ from the stored one by an ulp)
    ok = len(idx) == len(oq) and all(0 <= int(i) < len(fq) for i in idx) and \
        all(max(abs(x - y) for x, y in zip(fq[int(i)], oq[k])) <= 1e-14 and fi[int(i)] == oi[k]
            for k, i in enumerate(idx))
    if not ok:
        fail(f"{pre}:idx", f"{cls}.unique(antipodal={antipodal}): flat[idx[k]] is not the k-th returned rotation", rep)
    elif list(idx) != sorted(idx) or any(labs.index(labs[int(i)]) != int(i) for i in idx):
        fail(f"{pre}:idx:not-first", f"{cls}.unique: idx is not the increasing list of first occurrences", rep)
    ok = len(inv) == len(fq) and all(0 <= int(i) < len(oq) for i in inv) and \
        all(olabs[int(i)] == labs[j] for j, i in enumerate(inv))
    if not ok:
        fail(f"{pre}:inv", f"{cls}.unique(antipodal={antipodal}): out[inv[j]] is not the j-th flattened rotation", rep)
    # semantic check independent of the rounding model: merged rotations are the same rotation
    for j, i in enumerate(inv):
        if 0 <= int(i) < len(oq):
            d = abs(float(np.dot(oq[int(i)], fq[j])))
            if antipodal and (abs(d - 1) > 1e-9 or oi[int(i)] != fi[j]):
                fail(f"{pre}:merge", "rotations merged by unique differ by more than the tolerance", rep); break


# ------------------------------------------------------------ Miller oracle
PHASES = []


def phases():
    if not PHASES:
        PHASES.append(("m-3m", Phase(point_group="m-3m")))
        PHASES.append(("-1", Phase(point_group="-1",
                                   structure=Structure(lattice=Lattice(3, 4, 5, 80, 95, 100)))))
        PHASES.append(("6/mmm", Phase(point_group="6/mmm",
                                      structure=Structure(lattice=Lattice(3, 3, 5, 90, 90, 120)))))
        PHASES.append(("mmm", Phase(point_group="mmm", structure=Structure(lattice=Lattice(3, 4, 5, 90, 90, 90)))))
        PHASES.append(("4/mmm", Phase(point_group="4/mmm",
                                      structure=Structure(lattice=Lattice(3, 3, 5, 90, 90, 90)))))
        PHASES.append(("432", Phase(point_group="432")))
    return PHASES


def gen_miller(n, ph):
    pg = ph.point_group
    hkls, kinds = [], []
    for _ in range(n):
        k = R.random()
        if k < 0.1:
            hkls.append([0, 0, 0]); kinds.append("zero")
        elif k < 0.3 and hkls:
            h = R.choice(hkls)
            hkls.append(h if isinstance(h, tuple) else list(h)); kinds.append("exactdup")
        elif k < 0.6 and hkls:
            kinds.append("equivalent")
            hkls.append(("sym", R.randrange(len(hkls)), R.randrange(pg.size)))
        else:
            hkls.append([R.randint(-3, 3) for _ in range(3)]); kinds.append("random")
    fmt = R.choice(["hkl", "uvw"])
    base = [h if isinstance(h, list) else [0, 0, 0] for h in hkls]
    m = Miller(**{fmt: np.array(base, dtype=float)}, phase=ph)
    xyz = m.data.copy()
    for i, h in enumerate(hkls):
        if isinstance(h, tuple):
            _, j, g = h
            xyz[i] = (pg[g] * Vector3d(xyz[j])).data.reshape(3)
    return xyz, kinds


def run_miller_sym(name, ph, xyz, shape, tag, record=True):
    m = Miller(xyz=np.array(xyz, dtype=float).reshape(shape + (3,)), phase=ph)
    flat = m.flatten().data.tolist()
    pg = ph.point_group
    rep = {"cls": "Miller", "point_group": name, "shape": list(shape), "xyz": np.array(xyz).tolist(),
           "use_symmetry": True}
    try:
        u, idx = m.unique(use_symmetry=True, return_index=True)
        u0 = m.unique(use_symmetry=True)
    except Exception as e:  # noqa
        fail("unique:Miller:sym:raises", f"Miller.unique(use_symmetry=True) raises {type(e).__name__}: {e}", rep)
        return
    out = u.data.reshape(-1, 3).tolist()
    if not np.array_equal(u0.data, u.data) or not isinstance(u, Miller) or u.phase is not m.phase \
            or u.coordinate_format != m.coordinate_format:
        fail("unique:Miller:sym:object", "returned Miller differs between flags or loses phase/format", rep)
    if record:
        cases.append({"k": "mil", "pg": name, "ops": pg.data.tolist(), "opsi": [bool(x) for x in pg.improper],
                      "flat": flat, "out": out, "idx": [int(i) for i in idx]})
    # reference: orbits with a tolerance (inputs are well separated), base result by exact labels
    labs = []
    for r in flat:
        l, a = row_label(r)
        z, za = is_zero_label(l)
        if a or za:
            st(f"oracle-skipped-ambiguous/{tag}")
            return
        labs.append((l, z))
    nz = [j for j, (l, z) in enumerate(labs) if not z]
    vb_pos = [nz[[labs[j][0] for j in nz].index(l)] for l in nub([labs[j][0] for j in nz])]
    vb = [np.round(np.array(flat[j]), 10) for j in vb_pos]
    mats = pg.to_matrix() * np.where(pg.improper, -1.0, 1.0)[:, None, None]

    def cls_of(v, reps):
        v = np.asarray(v)
        for c, r in enumerate(reps):
            dmin = np.min(np.max(np.abs(np.einsum("gij,j->gi", mats, r) - v), axis=1))
            if dmin < 1e-7:
                return c
            if dmin < 1e-5:
                return "amb"
        return None

    reps, fcls = [], []
    for j in nz:
        c = cls_of(flat[j], reps)
        if c == "amb":
            st(f"oracle-skipped-ambiguous/{tag}"); return
        if c is None:
            reps.append(np.array(flat[j])); c = len(reps) - 1
        fcls.append(c)
    ocls = [cls_of(o, reps) for o in out]
    pre = "unique:Miller:sym"
    if None in ocls or "amb" in ocls:
        fail(f"{pre}:spurious", "Miller.unique(use_symmetry=True) returns a vector not equivalent to any input", rep)
        return
    if len(set(ocls)) != len(ocls):
        # explained by the double rounding (vector rounded to 10 decimals, images rounded again)?
        # the orbit keys as the library computes them (its own outer product, so that not even the last
        # bit differs): images of the returned (already rounded) vectors, rounded to 10 decimals, sorted
        _v2 = pg.outer(Vector3d(np.array(out))).flatten().reshape(len(out), pg.size).data.round(10) + 0.0

        def okey(v):
            k = next(i for i in range(len(out)) if v is out[i])
            o = _v2[k]
            return o[np.lexsort(o.T)]
        why = ":rounding-threshold"
        for a in range(len(out)):
            for b in range(a + 1, len(out)):
                if ocls[a] == ocls[b]:
                    # distance between the two rounded orbits AS SETS (a one-step difference also permutes the
                    # lexicographic order of the rows): every row of one has a row of the other within dk
                    ka, kb = okey(out[a]), okey(out[b])
                    dd = np.max(np.abs(ka[:, None, :] - kb[None, :, :]), axis=2)
                    dk = max(np.max(np.min(dd, axis=1)), np.max(np.min(dd, axis=0)))
                    # explained only if the two rounded orbit keys DIFFER, by one rounding step: with equal
                    # keys the documented procedure merges the two vectors
                    if dk > 2.5e-10 or dk == 0:
                        why = ""
        fail(f"{pre}:distinct{why}", "Miller.unique(use_symmetry=True) returns two symmetrically equivalent vectors"
             + (" (their 10-decimal rounded orbits differ by one rounding step)" if why else ""), rep)
        return
    if set(ocls) != set(fcls):
        fail(f"{pre}:cover", "Miller.unique(use_symmetry=True) loses an orbit", rep)
        return
    for o in out:
        if min(np.max(np.abs(np.array(o) - np.array(flat[j]))) for j in nz) > 5.01e-11:
            fail(f"{pre}:value", "returned vector is not (a rounding of) an input vector", rep)
            break
    if ocls != nub(fcls):
        fail(f"{pre}:order", "Miller.unique(use_symmetry=True) does not keep the order of first appearance", rep)
    ok = len(idx) == len(out) and all(0 <= int(i) < len(flat) for i in idx) and \
        all(np.max(np.abs(np.array(flat[int(i)]) - np.array(out[k]))) <= 5.01e-11 for k, i in enumerate(idx))
    if not ok:
        rid = list(idx)[::-1]
        if len(idx) == len(out) and all(0 <= int(i) < len(vb) for i in rid) and \
                all(np.max(np.abs(vb[int(i)] - np.array(out[k]))) <= 1e-12 for k, i in enumerate(rid)):
            why = "into-base-result-reversed"
        else:
            why = "wrong"
        fail(f"{pre}:idx:{why}",
             f"Miller.unique(use_symmetry=True, return_index=True): flat[idx[k]] is not the k-th returned vector ({why})",
             rep)


# ============================================================ audit strata
# Entry points, keyword paths, input classes and histories that the strata above never reach.  The
# references are (a) a numpy brute force on WELL SEPARATED data (two entries are equal bit for bit / exact
# negatives of each other, or differ by >= 1e-3, so that no rounding threshold is involved) and (b) the same
# call made through the primary entry point (Vector3d / Rotation / Miller(xyz=...) on float64 data), which
# the strata above judge with the exact-rational oracle.  The ORDER of the base-class idx is the known
# finding unique:<cls>:idx:sorted-order; these strata compare idx as a set so that they do not restate it.
GROUPS = {g.name: g for g in osym._groups}
VEC_SUB = {"AxAngle": AxAngle, "Rodrigues": Rodrigues, "Homochoric": Homochoric,
           "SphericalRegion": SphericalRegion, "FundamentalSector": FundamentalSector}
ROT_CLS = {"Rotation": Rotation, "Symmetry": Symmetry, "OrientationRegion": OrientationRegion,
           "Orientation": Orientation, "Misorientation": Misorientation}
HEXL, TETL, ORTL = (3, 3, 5, 90, 90, 120), (3, 3, 5, 90, 90, 90), (3, 4, 5, 90, 90, 90)
XPHASES = {"-43m": None, "23": None, "mm2": ORTL, "-42m": TETL, "4mm": TETL, "-4": TETL, "3m": HEXL, "32": HEXL,
           "3": HEXL, "-3m": HEXL, "-6m2": HEXL, "6": HEXL, "622": HEXL}
_XP = {}


def phase_by_name(name):
    d = dict(phases())
    if name in d:
        return d[name]
    if name not in _XP:
        lat = XPHASES[name]
        _XP[name] = Phase(point_group=name) if lat is None else \
            Phase(point_group=name, structure=Structure(lattice=Lattice(*lat)))
    return _XP[name]


def sep_rows(dim, n, npool, integer=False):
    """well separated rows: pool entries are integers or multiples of 1e-3; exact duplicates, exact negatives,
    exact zero rows"""
    pool = []
    for _ in range(npool):
        if integer:
            pool.append([float(R.randint(-3, 3)) for _ in range(dim)])
        else:
            pool.append([round(R.gauss(0, 1), 3) for _ in range(dim)])
    rows = []
    for _ in range(n):
        k = R.random()
        if k < 0.10:
            rows.append([0.0] * dim)
        elif k < 0.25:
            rows.append([-x for x in R.choice(pool)])
        else:
            rows.append(list(R.choice(pool)))
    return rows


def sep_quats(n, npool):
    """well separated unit quaternions with exact duplicates, exact antipodes and flag flips"""
    pool = [rand_unit_quat(R) for _ in range(npool)]
    qs, imps = [], []
    for _ in range(n):
        k = R.random()
        if k < 0.25 and qs:
            j = R.randrange(len(qs)); qs.append([-x for x in qs[j]]); imps.append(imps[j])
        elif k < 0.40 and qs:
            j = R.randrange(len(qs)); qs.append(list(qs[j])); imps.append(not imps[j])
        else:
            qs.append(list(R.choice(pool))); imps.append(R.random() < 0.35)
    return qs, imps


def brute_vec(a):
    """(positions of the non-zero rows, positions of the first appearances, inverse over the non-zero rows)"""
    a = np.asarray(a, dtype=float)
    a = a.reshape(len(a), -1)
    nz = [j for j in range(len(a)) if not np.all(np.abs(a[j]) <= 1e-8)]
    first, inv = [], []
    for j in nz:
        hit = np.flatnonzero(np.max(np.abs(a[first] - a[j]), axis=1) < 1e-9) if first else []
        if len(hit):
            inv.append(int(hit[0]))
        else:
            first.append(j); inv.append(len(first) - 1)
    return nz, first, inv


def brute_rot(q, imp, antipodal):
    q = np.asarray(q, dtype=float).reshape(-1, 4)
    imp = np.asarray(imp, dtype=bool).reshape(-1)
    first, inv = [], []
    for j in range(len(q)):
        hit = []
        if first:
            d = np.max(np.abs(q[first] - q[j]), axis=1)
            if antipodal:
                d = np.minimum(d, np.max(np.abs(q[first] + q[j]), axis=1))
            hit = np.flatnonzero((d < 1e-9) & (imp[first] == imp[j]))
        if len(hit):
            inv.append(int(hit[0]))
        else:
            first.append(j); inv.append(len(first) - 1)
    return first, inv


def judge_vec(pre, what, flat, out, idx, inv, rep):
    """brute-force verdict on a base-class result"""
    a = np.asarray(flat, dtype=float)
    a = a.reshape(len(a), -1)
    out = np.asarray(out, dtype=float).reshape(-1, a.shape[1])
    nz, first, binv = brute_vec(a)
    if len(out) != len(first) or (len(first) and np.max(np.abs(out - a[first])) > 5.01e-11):
        fail(f"{pre}:values", f"{what}: the returned entries are not the distinct non-zero entries of the flattened "
             "input in order of first appearance (brute force)", rep)
        return False
    ok = True
    if idx is not None and sorted(int(i) for i in idx) != first:
        fail(f"{pre}:idx", f"{what}: np.sort(idx) is not the list of positions of the first appearances in the "
             "flattened input (brute force)", rep)
        ok = False
    if inv is not None and [int(i) for i in inv] != binv:
        fail(f"{pre}:inv", f"{what}: out[inv[j]] is not the j-th non-zero flattened entry (brute force)", rep)
        ok = False
    return ok


def judge_rot(pre, what, fq, fi, u, idx, inv, antipodal, rep):
    """brute-force verdict on a Rotation.unique result"""
    fq = np.asarray(fq, dtype=float).reshape(-1, 4)
    fi = np.asarray(fi, dtype=bool).reshape(-1)
    first, binv = brute_rot(fq, fi, antipodal)
    oq, oi = u.data.reshape(-1, 4), u.improper.reshape(-1)
    if len(oq) != len(first) or (len(first) and (np.max(np.abs(oq - fq[first])) > 1e-14
                                                  or not np.array_equal(oi, fi[first]))):
        fail(f"{pre}:values", f"{what}: the returned rotations (quaternion and improper flag) are not the distinct "
             "rotations of the flattened input in order of first appearance (brute force)", rep)
        return False
    ok = True
    if idx is not None and [int(i) for i in idx] != first:
        fail(f"{pre}:idx", f"{what}: idx is not the list of positions of the first appearances (brute force)", rep)
        ok = False
    if inv is not None and [int(i) for i in inv] != binv:
        fail(f"{pre}:inv", f"{what}: out[inv[j]] is not the j-th flattened rotation (brute force)", rep)
        ok = False
    return ok


def build_rot(rep, q=None, imp=None):
    q = np.array(rep["q"], dtype=float) if q is None else q
    imp = np.array(rep["improper"], dtype=bool) if imp is None else imp
    cls = rep["cls"]
    syms = [GROUPS[s] for s in rep.get("symmetry", [])]
    if cls == "Orientation":
        r = Orientation(q, symmetry=syms[0] if syms else osym.Oh)
    elif cls == "Misorientation":
        r = Misorientation(q, symmetry=tuple(syms) if syms else (osym.D6, osym.Oh))
    else:
        r = ROT_CLS[cls](q)
    r.improper = imp
    return r


def sym_kept(u, r):
    """symmetry of an Orientation / pair of symmetries of a Misorientation carried over to the result"""
    if not isinstance(r, Misorientation):
        return True
    a, b = u.symmetry, r.symmetry
    a, b = (a, b) if isinstance(a, tuple) else ((a,), (b,))
    return len(a) == len(b) and all(x.name == y.name and np.array_equal(x.data, y.data)
                                    and np.array_equal(x.improper, y.improper) for x, y in zip(a, b))


def exc(e):
    return f"{type(e).__name__}: {e}"[:200]


# ---- 1. subclasses of Vector3d that inherit Object3d.unique
def audit_vec_subclass(rep):
    name = rep["cls"]
    C = VEC_SUB[name]
    arr = np.array(rep["data"], dtype=float)
    pre = f"unique:{name}:subclass"
    try:
        obj, prim = C(arr), Vector3d(arr)
        u, idx, inv = obj.unique(return_index=True, return_inverse=True)
        u0 = obj.unique()
        p, pidx, pinv = prim.unique(return_index=True, return_inverse=True)
    except Exception as e:  # noqa
        fail(f"{pre}:raises", f"{name}.unique raises {exc(e)}", rep)
        return
    if type(u) is not C or type(u0) is not C or u.ndim != 1:
        fail(f"{pre}:class", f"{name}.unique does not return a flat {name}", rep)
    if not (np.array_equal(u.data, p.data) and np.array_equal(u0.data, p.data) and np.array_equal(idx, pidx)
            and np.array_equal(inv, pinv)):
        fail(f"{pre}:differs-from-Vector3d", f"{name}.unique and Vector3d.unique differ on the same data", rep)
    judge_vec(pre, f"{name}.unique", obj.flatten().data, u.data, idx, inv, rep)


# ---- 2. subclasses of Rotation (Symmetry, OrientationRegion; Orientation / Misorientation with their symmetries)
def audit_rot_subclass(rep):
    name, ap = rep["cls"], rep["antipodal"]
    pre = f"unique:{name}:subclass"
    try:
        r = build_rot(rep)
        prim = build_rot(dict(rep, cls="Rotation"))
        u, idx, inv = r.unique(return_index=True, return_inverse=True, antipodal=ap)
        u0 = r.unique(antipodal=ap)
        p, pidx, pinv = prim.unique(return_index=True, return_inverse=True, antipodal=ap)
    except Exception as e:  # noqa
        fail(f"{pre}:raises", f"{name}.unique raises {exc(e)}", rep)
        return
    if type(u) is not type(r) or type(u0) is not type(r) or u.ndim != 1:
        fail(f"{pre}:class", f"{name}.unique does not return a flat {name}", rep)
    elif not (sym_kept(u, r) and sym_kept(u0, r)):
        fail(f"{pre}:symmetry", f"{name}.unique does not carry the symmetry over to the returned object", rep)
    if not (np.array_equal(u.data, p.data) and np.array_equal(u.improper, p.improper)
            and np.array_equal(u0.data, p.data) and np.array_equal(u0.improper, p.improper)
            and np.array_equal(idx, pidx) and np.array_equal(inv, pinv)):
        fail(f"{pre}:differs-from-Rotation", f"{name}.unique and Rotation.unique differ on the same data", rep)
    f = r.flatten()
    judge_rot(pre, f"{name}.unique(antipodal={ap})", f.data, f.improper, u, idx, inv, ap, rep)


# ---- 3. empty objects (size 0, shapes (0,) and (2, 0)), every flag combination
def audit_empty(rep):
    cls, shape = rep["cls"], tuple(rep["shape"])
    ri, rv = bool(rep.get("return_index")), bool(rep.get("return_inverse"))
    pre = f"unique:{cls}:empty"
    kw = {}
    if ri:
        kw["return_index"] = True
    if rv:
        kw["return_inverse"] = True
    try:
        if cls in ("Vector3d", "Quaternion"):
            C = Vector3d if cls == "Vector3d" else Quaternion
            obj = C(np.zeros(shape + (C.dim,)))
        elif cls == "Miller":
            obj = Miller(xyz=np.zeros(shape + (3,)), phase=phase_by_name(rep["point_group"]))
            kw["use_symmetry"] = bool(rep["use_symmetry"])
        else:
            obj = build_rot(rep, q=np.zeros(shape + (4,)), imp=np.zeros(shape, dtype=bool))
            kw["antipodal"] = bool(rep["antipodal"])
        res = obj.unique(**kw)
    except Exception as e:  # noqa
        fail(f"{pre}:raises", f"{cls}.unique on an empty object of shape {shape} ({kw}) raises {exc(e)}", rep)
        return
    ar = len(res) if isinstance(res, tuple) else 1
    if ar != 1 + int(ri) + int(rv):
        fail(f"{pre}:arity", f"{cls}.unique on an empty object of shape {shape} ({kw}) returns {ar} value(s)", rep)
        return
    res = res if isinstance(res, tuple) else (res,)
    if type(res[0]) is not type(obj) or res[0].size != 0 or res[0].ndim != 1 or \
            any(np.asarray(a).shape != (0,) or np.asarray(a).dtype.kind != "i" for a in res[1:]) or \
            (cls == "Miller" and res[0].phase is not obj.phase):
        # (the symmetry of an empty Orientation / Misorientation is NOT demanded: Rotation.unique returns
        #  cls.empty(), which has the default symmetry; outside the statement of C17)
        fail(f"{pre}:values", f"{cls}.unique on an empty object of shape {shape} ({kw}) does not return an empty "
             "flat object of the same class and empty integer index arrays", rep)


# ---- 4. data of another dtype (integer, low-precision float) against the same numbers as float64
def audit_dtype(rep):
    cls, dt = rep["cls"], rep["dtype"]
    arr = np.array(rep["data"]).astype(dt)
    pre = f"unique:{cls}:dtype={dt}"
    kw = {"antipodal": bool(rep["antipodal"])} if cls == "Rotation" else {}
    C = {"Vector3d": Vector3d, "Quaternion": Quaternion, "Rotation": Rotation}[cls]
    try:
        obj, prim = C(arr), C(arr.astype(np.float64))
        if cls == "Rotation":
            imp = np.array(rep["improper"], dtype=bool)
            obj.improper = imp
            prim.improper = imp
        u, idx, inv = obj.unique(return_index=True, return_inverse=True, **kw)
        u0 = obj.unique(**kw)
        p, pidx, pinv = prim.unique(return_index=True, return_inverse=True, **kw)
    except Exception as e:  # noqa
        fail(f"{pre}:raises", f"{cls}.unique on {dt} data raises {exc(e)}", rep)
        return
    if not (np.array_equal(u.data, p.data) and np.array_equal(u0.data, p.data) and np.array_equal(idx, pidx)
            and np.array_equal(inv, pinv) and type(u) is C and u.ndim == 1
            and (cls != "Rotation" or np.array_equal(u.improper, p.improper))):
        fail(f"{pre}:differs-from-float64", f"{cls}.unique on {dt} data differs from the result for the same numbers "
             "given as float64", rep)
    f = obj.flatten()
    if cls == "Rotation":
        judge_rot(pre, f"{cls}.unique on {dt} data", f.data, f.improper, u, idx, inv, kw["antipodal"], rep)
    else:
        judge_vec(pre, f"{cls}.unique on {dt} data", f.data, u.data, idx, inv, rep)


# ---- 5. Miller built from indices (hkl / uvw / hkil / UVTW keyword), all four (use_symmetry, return_index)
def audit_miller_format(rep):
    name, fmt = rep["point_group"], rep["format"]
    us, ri = bool(rep["use_symmetry"]), bool(rep["return_index"])
    shape = tuple(rep["shape"])
    pre = f"unique:Miller:format={fmt}:sym={us}"
    ph = phase_by_name(name)
    coords = np.array(rep["coords"]).astype(rep.get("dtype", "float64"))
    coords = coords.reshape(shape + (coords.shape[-1],))
    try:
        m = Miller(**{fmt: coords}, phase=ph)
        xyz = np.array(m.data, dtype=float)
        prim = Miller(xyz=xyz.copy(), phase=ph)
        res = m.unique(use_symmetry=us, return_index=ri)
        pu, pidx = prim.unique(use_symmetry=us, return_index=True)
    except Exception as e:  # noqa
        fail(f"{pre}:raises", f"Miller({fmt}=...).unique(use_symmetry={us}, return_index={ri}) raises {exc(e)}", rep)
        return
    if isinstance(res, tuple) != ri or (ri and len(res) != 2):
        fail(f"{pre}:arity", f"Miller.unique(use_symmetry={us}, return_index={ri}) returns the wrong number of values",
             rep)
        return
    u = res[0] if ri else res
    if type(u) is not Miller or u.ndim != 1 or u.phase is not m.phase or u.coordinate_format != fmt:
        fail(f"{pre}:format-or-phase", f"Miller({fmt}=...).unique(use_symmetry={us}) does not return a flat Miller "
             f"with the phase and the coordinate format '{fmt}' of the input", rep)
    if not np.array_equal(u.data, pu.data) or (ri and not np.array_equal(res[1], pidx)):
        fail(f"{pre}:differs-from-xyz", f"Miller({fmt}=...).unique(use_symmetry={us}, return_index={ri}) differs from "
             "the result for the same vectors given as xyz with return_index=True", rep)
    elif ri and u.coordinate_format == fmt:
        fl = m.flatten()
        # without symmetry the k-th returned vector sits at np.sort(idx)[k] (order of idx: known finding
        # unique:Miller:idx:sorted-order), with symmetry at idx[k]
        ix = np.asarray(res[1], dtype=int)
        want = np.asarray(getattr(fl, fmt))[ix if us else np.sort(ix)]
        if u.size != len(want) or not np.allclose(np.asarray(getattr(u, fmt)), want, atol=1e-8):
            fail(f"{pre}:indices", f"the {fmt} of the returned vectors are not the {fmt} of the flattened input at idx",
                 rep)
    # the xyz path itself, judged by the oracles above
    if us:
        run_miller_sym(name, ph, xyz.reshape(-1, 3).tolist(), shape, f"audit/miller-format/{fmt}", record=False)
    else:
        run_base("Miller", xyz, shape, f"audit/miller-format/{fmt}", miller_phase=ph, record=False)


# ---- 6. flags passed by position
def same_result(a, b):
    a = a if isinstance(a, tuple) else (a,)
    b = b if isinstance(b, tuple) else (b,)
    if len(a) != len(b) or type(a[0]) is not type(b[0]) or not np.array_equal(a[0].data, b[0].data):
        return False
    if isinstance(a[0], Rotation) and not np.array_equal(a[0].improper, b[0].improper):
        return False
    return all(np.array_equal(x, y) for x, y in zip(a[1:], b[1:]))


def audit_positional(rep):
    cls = rep["cls"]
    pre = f"unique:{cls}:positional"
    try:
        if cls == "Miller":
            o = Miller(xyz=np.array(rep["data"], dtype=float), phase=phase_by_name(rep["point_group"]))
            pairs = [((True,), {"use_symmetry": True}), ((False, True), {"return_index": True}),
                     ((True, True), {"use_symmetry": True, "return_index": True}), ((False, False), {})]
        elif cls in ("Vector3d", "Quaternion"):
            o = (Vector3d if cls == "Vector3d" else Quaternion)(np.array(rep["data"], dtype=float))
            pairs = [((True,), {"return_index": True}), ((False, True), {"return_inverse": True}),
                     ((True, True), {"return_index": True, "return_inverse": True}), ((False, False), {})]
        else:
            o = build_rot(rep)
            pairs = [((True,), {"return_index": True}), ((False, True), {"return_inverse": True}),
                     ((True, True, False), {"return_index": True, "return_inverse": True, "antipodal": False}),
                     ((False, False, False), {"antipodal": False}), ((False, True, True), {"return_inverse": True}),
                     ((True, False, True), {"return_index": True, "antipodal": True})]
        for args, kw in pairs:
            if not same_result(o.unique(*args), o.unique(**kw)):
                fail(pre, f"{cls}.unique{args} differs from {cls}.unique(**{kw})", rep)
                return
    except Exception as e:  # noqa
        fail(f"{pre}:raises", f"{cls}.unique with positional flags raises {exc(e)}", rep)


# ---- 7. objects with a history (views, transposes, products, mutation after a first call, unique of unique)
VEC_OPS = ["slice-step", "slice-col", "transpose", "reshape", "neg", "squeeze", "setitem-after-unique",
           "unique-twice", "stack"]
ROT_OPS = ["neg", "getitem-rev", "slice-col", "transpose", "mul-proper", "mul-improper", "rmul-improper", "invert",
           "outer-flags", "improper-after-unique", "setitem-after-unique", "unique-twice", "minus-one"]


def audit_history(rep):
    cls, op = rep["cls"], rep["op"]
    pre = f"unique:{cls}:history:{op}"
    try:
        if cls in ("Vector3d", "Quaternion", "Miller"):
            arr = np.array(rep["data"], dtype=float)  # shape (a, b, dim)
            ph = phase_by_name(rep["point_group"]) if cls == "Miller" else None

            def mk(x):
                x = np.array(x, dtype=float)
                return Miller(xyz=x, phase=ph) if cls == "Miller" else \
                    (Vector3d if cls == "Vector3d" else Quaternion)(x)
            o = mk(arr)
            if op == "slice-step":
                o = o[::2]
            elif op == "slice-col":
                o = o[:, 0]
            elif op == "transpose":
                o = o.transpose()
            elif op == "reshape":
                o = o.reshape(arr.shape[1], arr.shape[0])
            elif op == "neg":
                o = -o
            elif op == "squeeze":
                o = mk(arr[:, :1]).squeeze()
            elif op == "setitem-after-unique":
                o.unique(return_index=True)
                o[0] = o[-1]
            elif op == "unique-twice":
                o = o.unique()
            elif op == "stack":
                o = type(o).stack([o[0], o[-1], o[0]]) if cls != "Miller" else o[::-1]
            flat = np.array(o.flatten().data, dtype=float)
            fresh = mk(flat.copy())
            if cls == "Miller":
                u, idx = o.unique(return_index=True)
                inv = None
                fu, fidx = fresh.unique(return_index=True)
                finv = None
            else:
                u, idx, inv = o.unique(return_index=True, return_inverse=True)
                fu, fidx, finv = fresh.unique(return_index=True, return_inverse=True)
            if not (type(u) is type(fu) and np.array_equal(u.data, fu.data) and np.array_equal(idx, fidx)
                    and (inv is None or np.array_equal(inv, finv))):
                fail(f"{pre}:differs-from-fresh", f"{cls}.unique of an object obtained by '{op}' differs from unique "
                     "of a new object holding the same flattened data", rep)
            ok = judge_vec(pre, f"{cls}.unique after '{op}'", flat, u.data, idx, inv, rep)
            if ok and op == "unique-twice" and not (u.size == o.size and np.array_equal(u.data, o.data)):
                fail(f"{pre}:not-idempotent", f"{cls}.unique of a unique result changes it", rep)
        else:
            r = build_rot(rep)  # shape (a, b)
            one = Rotation([[0.5, 0.5, -0.5, 0.5]])
            if op == "neg":
                o = -r
            elif op == "getitem-rev":
                o = r[::-1]
            elif op == "slice-col":
                o = r[:, 0]
            elif op == "transpose":
                o = r.transpose()
            elif op == "mul-proper":
                o = r * one
            elif op == "mul-improper":
                one.improper = [True]
                o = r * one
            elif op == "rmul-improper":
                one.improper = [True]
                o = one * r
            elif op == "invert":
                o = ~r
            elif op == "outer-flags":
                two = Rotation([[1, 0, 0, 0], [1, 0, 0, 0]])
                two.improper = [False, True]
                o = r.outer(two)
            elif op == "improper-after-unique":
                o = r
                o.unique(return_index=True, return_inverse=True, antipodal=rep["antipodal"])
                imp2 = ~o.improper
                imp2[0, :] = False
                o.improper = imp2
            elif op == "setitem-after-unique":
                o = r
                o.unique(return_index=True, return_inverse=True, antipodal=rep["antipodal"])
                o[0] = o[-1]
            elif op == "unique-twice":
                o = r.unique(antipodal=rep["antipodal"])
            elif op == "minus-one":
                o = r * -1
            ap = bool(rep["antipodal"])
            f = o.flatten()
            fq, fi = np.array(f.data, dtype=float), np.array(f.improper, dtype=bool)
            fresh = Rotation(fq.copy())
            fresh.improper = fi
            u, idx, inv = o.unique(return_index=True, return_inverse=True, antipodal=ap)
            fu, fidx, finv = fresh.unique(return_index=True, return_inverse=True, antipodal=ap)
            if not (type(u) is type(o) and u.size == fu.size and np.max(np.abs(u.data - fu.data), initial=0) <= 1e-14
                    and np.array_equal(u.improper, fu.improper)
                    and np.array_equal(idx, fidx) and np.array_equal(inv, finv)):
                fail(f"{pre}:differs-from-fresh", f"{cls}.unique of an object obtained by '{op}' differs from unique "
                     "of a new object holding the same flattened quaternions and flags", rep)
            elif op not in ("rmul-improper", "mul-proper", "mul-improper", "outer-flags", "minus-one") and \
                    not sym_kept(u, o):
                fail(f"{pre}:symmetry", f"{cls}.unique after '{op}' loses the symmetry", rep)
            ok = judge_rot(pre, f"{cls}.unique(antipodal={ap}) after '{op}'", fq, fi, u, idx, inv, ap, rep)
            if ok and op == "unique-twice" and not (np.array_equal(idx, np.arange(o.size))
                                                    and np.array_equal(inv, np.arange(o.size))):
                fail(f"{pre}:not-idempotent", f"{cls}.unique of a unique result changes it", rep)
    except Exception as e:  # noqa
        fail(f"{pre}:raises", f"{cls}.unique after '{op}' raises {exc(e)}", rep)


# ---- 8. large collections and shapes with >= 4 axes / size-1 axes in any position, brute force
def audit_brute(rep):
    cls, shape = rep["cls"], tuple(rep["shape"])
    pre = f"unique:{cls}:brute"
    try:
        if cls in ("Vector3d", "Quaternion", "Miller"):
            arr = np.array(rep["data"], dtype=float).reshape(shape + (-1,))
            if cls == "Miller":
                o = Miller(xyz=arr, phase=phase_by_name(rep["point_group"]))
                u, idx = o.unique(return_index=True)
                inv = None
            else:
                o = (Vector3d if cls == "Vector3d" else Quaternion)(arr)
                u, idx, inv = o.unique(return_index=True, return_inverse=True)
            u0 = o.unique()
            if type(u) is not type(o) or u.ndim != 1 or not np.array_equal(u0.data, u.data):
                fail(f"{pre}:object", f"{cls}.unique on shape {shape} is not flat / changes class / depends on flags",
                     rep)
            judge_vec(pre, f"{cls}.unique on shape {shape}", o.flatten().data, u.data, idx, inv, rep)
        else:
            ap = bool(rep["antipodal"])
            r = build_rot(rep, q=np.array(rep["q"], dtype=float).reshape(shape + (4,)),
                          imp=np.array(rep["improper"], dtype=bool).reshape(shape))
            u, idx, inv = r.unique(return_index=True, return_inverse=True, antipodal=ap)
            u0 = r.unique(antipodal=ap)
            if type(u) is not type(r) or u.ndim != 1 or not np.array_equal(u0.data, u.data) or \
                    not np.array_equal(u0.improper, u.improper) or not sym_kept(u, r):
                fail(f"{pre}:object", f"{cls}.unique on shape {shape} is not flat / changes class or symmetry / "
                     "depends on flags", rep)
            f = r.flatten()
            judge_rot(pre, f"{cls}.unique(antipodal={ap}) on shape {shape}", f.data, f.improper, u, idx, inv, ap, rep)
    except Exception as e:  # noqa
        fail(f"{pre}:raises", f"{cls}.unique on shape {shape} raises {exc(e)}", rep)


# ---- 9. symmetry groups built through unique(): products of two named groups, from_generators
def audit_group(rep):
    kind = rep["kind"]
    pre = f"unique:Symmetry:{kind}"
    try:
        if kind == "product":
            g1, g2 = GROUPS[rep["g1"]], GROUPS[rep["g2"]]
            prod = g1.outer(g2)
            f = prod.flatten()
            for ap in (True, False):
                u, idx, inv = prod.unique(return_index=True, return_inverse=True, antipodal=ap)
                if type(u) is not Symmetry:
                    fail(f"{pre}:class", "unique of a product of two point groups is not a Symmetry", rep)
                if not judge_rot(pre, f"({g1.name}).outer({g2.name}).unique(antipodal={ap})", f.data, f.improper, u,
                                 idx, inv, ap, rep):
                    return
            u = prod.unique()
            if g1.name == g2.name and u.size != g1.size:
                fail(f"{pre}:closure", f"({g1.name}).outer({g1.name}).unique() has {u.size} elements, the group has "
                     f"{g1.size}", rep)
        else:
            g = GROUPS[rep["g1"]]
            # (generators whose product with the identity has a single element make from_generators return
            #  before closing the set -- its loop starts from size 1 -- which is not unique()'s doing: groups
            #  of order <= 2 are passed whole)
            gens = [g] if kind == "from_generators:whole" or g.size <= 2 else [g[1:], g[:1]]
            s = Symmetry.from_generators(*gens)
            first, inv = brute_rot(np.concatenate([g.data, s.data]), np.concatenate([g.improper, s.improper]), True)
            # every element of s is one of g (inverse label < |g|), all of g are reached, no duplicates in s
            lab = inv[g.size:]
            if type(s) is not Symmetry or s.size != g.size or len(first) != g.size or len(set(lab)) != len(lab):
                fail(pre, f"Symmetry.from_generators on the elements of {g.name} returns {s.size} elements "
                     f"({len(set(lab))} distinct, {len(first) - g.size} outside the group); the group has {g.size}",
                     rep)
    except Exception as e:  # noqa
        fail(f"{pre}:raises", f"{kind} raises {exc(e)}", rep)


AUDIT = {"vec-subclass": audit_vec_subclass, "rot-subclass": audit_rot_subclass, "empty": audit_empty,
         "dtype": audit_dtype, "miller-format": audit_miller_format, "positional": audit_positional,
         "history": audit_history, "brute": audit_brute, "group": audit_group}


# =================================================================== run
def replay_one(rep):
    """re-run one stored failing input (the `replay` object of a failure)"""
    if rep.get("stratum") in AUDIT:
        AUDIT[rep["stratum"]](rep)
    elif rep.get("empty"):
        cls = {"Rotation": Rotation, "Orientation": Orientation, "Misorientation": Misorientation}[rep["cls"]]
        res = cls.empty().unique(return_index=rep["return_index"], return_inverse=rep["return_inverse"])
        ar = len(res) if isinstance(res, tuple) else 1
        if ar != 1 + int(rep["return_index"]) + int(rep["return_inverse"]):
            fail(f"unique:{rep['cls']}:empty:arity", f"returns {ar} value(s)", rep)
        elif type((res if ar > 1 else (res,))[0]) is not cls or (res if ar > 1 else (res,))[0].size != 0 or \
                any(np.asarray(a).shape != (0,) or np.asarray(a).dtype.kind != "i" for a in (res[1:] if ar > 1 else ())):
            fail(f"unique:{rep['cls']}:empty:values", "does not return an empty object and empty index arrays", rep)
    elif rep.get("use_symmetry"):
        ph = phase_by_name(rep["point_group"])
        run_miller_sym(rep["point_group"], ph, rep["xyz"], tuple(rep["shape"]), "replay")
    elif "q" in rep:
        q = np.array(rep["q"], float)
        run_rot(rep["cls"], q.reshape(-1, 4).tolist(), np.array(rep["improper"]).reshape(-1).tolist(),
                tuple(rep["shape"]), rep["antipodal"], "replay")
    else:
        run_base(rep["cls"], np.array(rep["data"], float), tuple(rep["shape"]), "replay",
                 miller_phase=phases()[0][1] if rep["cls"] == "Miller" else None)


if "replay" in P:
    replay_one(P["replay"])
    emit({"cases": cases, "fails": fails, "strata": strata, "witness": {}})
else:
    # ---- the witnesses / examples of Proofs/C17Witness.v, replayed on the implementation
    w = run_base("Vector3d", np.array([[3, 0, 0], [1, 0, 0], [3, 0, 0], [2, 0, 0]], float), (4,), "witness")
    witness["base_order"] = None if w is None else {"out": w[1], "idx": [int(i) for i in w[2]], "inv": [int(i) for i in w[3]]}
    w = run_base("Vector3d", np.array([[0, 0, 0], [5, 0, 0]], float), (2,), "witness")
    witness["base_zero"] = None if w is None else {"out": w[1], "idx": [int(i) for i in w[2]], "inv": [int(i) for i in w[3]]}
    run_miller_sym("-1", phases()[1][1], [[1, 0, 0], [0, 1, 0], [-1, 0, 0], [0, 0, 1]], (4,), "witness")
    witness["miller_sym"] = {"out": cases[-1]["out"], "idx": cases[-1]["idx"]}
    for cls in (Rotation, Orientation, Misorientation):
        e = cls.empty()
        for ri, rv in ((True, False), (False, True), (True, True)):
            res = e.unique(return_index=ri, return_inverse=rv)
            ar = len(res) if isinstance(res, tuple) else 1
            st("rot/empty")
            if ar != 1 + int(ri) + int(rv):
                fail(f"unique:{cls.__name__}:empty:arity",
                     f"{cls.__name__}.empty().unique(return_index={ri}, return_inverse={rv}) returns {ar} value(s)",
                     {"cls": cls.__name__, "empty": True, "return_index": ri, "return_inverse": rv})
            elif type(res[0]) is not cls or res[0].size != 0 or \
                    any(np.asarray(a).shape != (0,) or np.asarray(a).dtype.kind != "i" for a in res[1:]):
                fail(f"unique:{cls.__name__}:empty:values",
                     f"{cls.__name__}.empty().unique(return_index={ri}, return_inverse={rv}) does not return an "
                     "empty object and empty integer index arrays",
                     {"cls": cls.__name__, "empty": True, "return_index": ri, "return_inverse": rv})
        if e.unique().size != 0:
            fail(f"unique:{cls.__name__}:empty:size", "unique of an empty object is not empty", {"cls": cls.__name__})
    witness["rot_empty_arity"] = {c.__name__: (lambda r: len(r) if isinstance(r, tuple) else 1)(
        c.empty().unique(return_index=True, return_inverse=True)) for c in (Rotation,)}

    # ---- base class
    nb = max(N * 2 // 5, 20)
    for k in range(nb):
        cls = R.choice(["Vector3d", "Vector3d", "Quaternion", "Miller"])
        dim = 4 if cls == "Quaternion" else 3
        n = pick_size()
        rows, kinds = gen_rows(dim, n)
        arr, shape = shaped(rows, n, dim)
        tag = f"base/{cls}/ndim={len(shape)}"
        st(tag)
        for kd in set(kinds):
            st(f"base/kind={kd}")
        run_base(cls, arr, shape, tag, miller_phase=R.choice(phases())[1] if cls == "Miller" else None)

    # ---- rotations
    nr = max(N * 2 // 5, 20)
    for k in range(nr):
        set_backend(k % 4 != 0)
        cls = R.choice(["Rotation", "Rotation", "Orientation", "Misorientation"])
        n = pick_size()
        qs, imps, kinds = gen_quats(n)
        shape = R.choice(SHAPES[n])
        antipodal = R.random() < 0.6
        tag = f"rot/{cls}/antipodal={antipodal}/ndim={len(shape)}"
        st(tag)
        for kd in set(kinds):
            st(f"rot/kind={kd}")
        run_rot(cls, qs, imps, shape, antipodal, tag)
    set_backend(True)

    # ---- Miller with symmetry
    nm = max(N // 8, 10)
    for k in range(nm):
        set_backend(k % 3 != 0)
        name, ph = R.choice(phases())
        n = R.choice([2, 3, 4, 6, 8, 9, 12])
        xyz, kinds = gen_miller(n, ph)
        shape = R.choice(SHAPES[n])
        tag = f"miller-sym/{name}/ndim={len(shape)}"
        st(tag)
        for kd in set(kinds):
            st(f"miller-sym/kind={kd}")
        run_miller_sym(name, ph, xyz, shape, tag)
    set_backend(True)

    # ---- corpus (stored regression inputs) first
    for rep in P.get("corpus", []):
        st("corpus")
        replay_one(rep)

    # ---- bounded-exhaustive: every list up to length L over a small alphabet
    import itertools
    L = P.get("exhaustive", 3)
    VA = [[0.0, 0.0, 0.0], [1.0, 0.3, -2.0], [-1.0, -0.3, 2.0], [1.0 + 3e-11, 0.3, -2.0],
          [1.0 + 1e-10, 0.3, -2.0], [0.5, 0.0, 0.0]]
    h = (0.5, 0.5, 0.5, 0.5)
    QA = [(h, False), (tuple(-x for x in h), False), (h, True), ((0.6, 0.8, 0.0, 0.0), False),
          ((0.5 + 1.3e-13, 0.5, 0.5, 0.5), False), ((0.5 + 1.3e-11, 0.5, 0.5, 0.5), False)]
    for n in range(1, L + 1):
        for tup in itertools.product(VA, repeat=n):
            st(f"exhaustive/base/len={n}")
            run_base("Vector3d", np.array(tup, float), (n,), "exhaustive/base")
        for tup in itertools.product(QA, repeat=n):
            for ap in (True, False):
                st(f"exhaustive/rot/len={n}")
                run_rot("Rotation", [list(t[0]) for t in tup], [t[1] for t in tup], (n,), ap, "exhaustive/rot")
    MA = [[1.0, 0.0, 0.0], [0.0, 1.0, 0.0], [-1.0, 0.0, 0.0], [1.0, 1.0, 0.0], [0.0, 0.0, 0.0]]
    for n in range(1, min(L, 3) + 1):
        for tup in itertools.product(MA, repeat=n):
            st(f"exhaustive/miller-sym/len={n}")
            run_miller_sym("4/mmm", dict(phases())["4/mmm"], [list(t) for t in tup], (n,), "exhaustive/miller-sym")

    # ---- assumptions tested differentially: np.unique and np.round
    for k in range(max(N // 8, 10)):
        n = R.choice([1, 2, 5, 9, 14])
        w_ = R.choice([1, 2, 3, 5])
        vals = [R.choice([0.0, -0.0, 1.0, -1.0, 0.5, 2.0, 1e-10, -1e-10]) for _ in range(4)] + [R.gauss(0, 1)]
        rows = [[R.choice(vals) for _ in range(w_)] for _ in range(n)]
        a = np.array(rows, dtype=float)
        _, idx, inv = np.unique(a, axis=0, return_index=True, return_inverse=True)
        cases.append({"k": "npu", "rows": rows, "idx": [int(i) for i in idx], "inv": [int(i) for i in np.ravel(inv)]})
        st("np.unique")
    xs = []
    for k in range(max(N // 2, 60)):
        c = R.random()
        if c < 0.3:
            xs.append(R.gauss(0, 1) * 10 ** R.randint(-12, 2))
        elif c < 0.7:
            xs.append(R.choice(GRID) + R.choice([0, 1, -1, 2, 3]) * 1e-10 + R.choice([5e-11, -5e-11, 4.9e-11, 5.1e-11, 0, 1e-13]))
        else:
            xs.append(R.choice([0.25, 0.36, 0.01, 0.49, 0.0625]) + R.choice([5e-13, -5e-13, 4.9e-13, 1.5e-12, 0]))
    xa = np.array(xs)
    cases.append({"k": "round", "x": xs, "r10": np.round(xa, 10).tolist(), "r12": np.round(xa, 12).tolist()})
    st("np.round")


    # ---- audit strata: secondary classes, empty objects, dtypes, Miller index formats, positional flags,
    #      histories, large / many-axis shapes, groups built through unique(), further point groups.
    #      Parameter combinations are CYCLED (k-th case takes the k-th combination), only the data is random.
    KR = 1 if N < 1000 else 3
    set_backend(True)

    def go(stratum, rep, label):
        rep = dict(rep, stratum=stratum)
        st(f"audit/{stratum}/{label}")
        nf = len(fails)
        AUDIT[stratum](rep)
        return len(fails) == nf

    A_SHAPES = [(6,), (2, 3), (3, 1, 2), (1, 6), (2, 1, 3, 1)]
    # 1. Vector3d subclasses
    for k in range(10 * KR):
        name = list(VEC_SUB)[k % len(VEC_SUB)]
        shape = A_SHAPES[k % len(A_SHAPES)]
        n = int(np.prod(shape))
        arr = np.array(sep_rows(3, n, 1 + k % 3, integer=k % 2 == 0), dtype=float).reshape(shape + (3,))
        go("vec-subclass", {"cls": name, "data": arr.tolist()}, name)
    # 2. Rotation subclasses; the two symmetries of a Misorientation are drawn from different classes, both orders
    SYM1 = ["432", "-3m", "1", "mm2", "6/mmm"]
    SYM2 = [("622", "m-3m"), ("m-3m", "622"), ("1", "-43m"), ("-4", "222"), ("3m", "3m"), ("-1", "1")]
    k = 0
    for name in ("Symmetry", "OrientationRegion", "Orientation", "Misorientation"):
        for ap in (True, False):
            for j in range(2 * KR):
                set_backend(k % 3 != 0)
                shape = A_SHAPES[k % len(A_SHAPES)]
                n = int(np.prod(shape))
                qs, imps = sep_quats(n, 1 + k % 3)
                rep = {"cls": name, "antipodal": ap, "q": np.array(qs).reshape(shape + (4,)).tolist(),
                       "improper": np.array(imps).reshape(shape).tolist()}
                if name == "Orientation":
                    rep["symmetry"] = [SYM1[k % len(SYM1)]]
                elif name == "Misorientation":
                    rep["symmetry"] = list(SYM2[k % len(SYM2)])
                go("rot-subclass", rep, f"{name}/antipodal={ap}")
                k += 1
    set_backend(True)
    # 3. empty objects
    for shape in ([0], [2, 0]):
        for ri in (False, True):
            for rv in (False, True):
                for cls in ("Vector3d", "Quaternion"):
                    go("empty", {"cls": cls, "shape": shape, "return_index": ri, "return_inverse": rv}, cls)
                for cls in ("Rotation", "Orientation", "Misorientation", "Symmetry"):
                    for ap in (True, False):
                        go("empty", {"cls": cls, "shape": shape, "return_index": ri, "return_inverse": rv,
                                     "antipodal": ap}, f"{cls}/antipodal={ap}")
            for us in (False, True):
                go("empty", {"cls": "Miller", "shape": shape, "return_index": ri, "return_inverse": False,
                             "use_symmetry": us, "point_group": ["m-3m", "6/mmm", "-43m"][(ri + 2 * us) % 3]},
                   f"Miller/sym={us}")
    # 4. dtypes
    k = 0
    for dt in ("int64", "int32", "int8", "float32", "float16"):
        for cls in ("Vector3d", "Quaternion", "Rotation"):
            for j in range(KR):
                shape = A_SHAPES[k % len(A_SHAPES)]
                n = int(np.prod(shape))
                dim = 3 if cls == "Vector3d" else 4
                rows = sep_rows(dim, n, 2 + k % 2, integer=True)
                if cls == "Rotation":  # no zero quaternions (they cannot be normalised)
                    rows = [r if any(r) else [1.0, 0.0, 0.0, 0.0] for r in rows]
                rep = {"cls": cls, "dtype": dt, "data": np.array(rows).reshape(shape + (dim,)).tolist()}
                if cls == "Rotation":
                    rep["antipodal"] = k % 2 == 0
                    rep["improper"] = np.array([R.random() < 0.3 for _ in range(n)]).reshape(shape).tolist()
                go("dtype", rep, f"{cls}/{dt}")
                k += 1
    # 5. Miller built from indices
    FMT = [("hkl", ["m-3m", "6/mmm", "mmm", "-43m", "3m"]), ("uvw", ["432", "4/mmm", "-1", "-6m2", "mm2"]),
           ("hkil", ["6/mmm", "-3m", "32", "-6m2"]), ("UVTW", ["6/mmm", "3m", "622", "6"])]
    k = 0
    for fmt, names in FMT:
        for us in (False, True):
            for ri in (False, True):
                for j in range(2 * KR):
                    set_backend(k % 3 != 0)
                    name = names[k % len(names)]
                    shape = A_SHAPES[k % len(A_SHAPES)]
                    n = int(np.prod(shape))
                    pool = [[R.randint(-2, 2) for _ in range(3)] for _ in range(1 + k % 4)]
                    c3 = []
                    for _ in range(n):
                        t = R.random()
                        v = [0, 0, 0] if t < 0.1 else list(R.choice(pool))
                        if 0.1 <= t < 0.3:
                            R.shuffle(v)  # often a symmetrically equivalent vector
                        if 0.3 <= t < 0.45:
                            v = [-x for x in v]
                        c3.append(v)
                    if fmt in ("hkil", "UVTW"):
                        c3 = [[a, b, -(a + b), c] for a, b, c in c3]
                    rep = {"cls": "Miller", "point_group": name, "format": fmt, "shape": list(shape), "coords": c3,
                           "use_symmetry": us, "return_index": ri, "dtype": "int64" if k % 2 else "float64"}
                    go("miller-format", rep, f"{fmt}/sym={us}/idx={ri}")
                    k += 1
    set_backend(True)
    # 6. positional flags
    for k in range(6 * KR):
        cls = ["Vector3d", "Quaternion", "Miller", "Rotation", "Orientation", "Misorientation"][k % 6]
        if cls in ("Vector3d", "Quaternion", "Miller"):
            dim = 4 if cls == "Quaternion" else 3
            rep = {"cls": cls, "data": np.array(sep_rows(dim, 6, 2, integer=True)).reshape(2, 3, dim).tolist(),
                   "point_group": "m-3m"}
        else:
            qs, imps = sep_quats(6, 2)
            rep = {"cls": cls, "q": np.array(qs).reshape(2, 3, 4).tolist(),
                   "improper": np.array(imps).reshape(2, 3).tolist()}
        go("positional", rep, cls)
    # 7. histories
    k = 0
    for op in VEC_OPS:
        for cls in ("Vector3d", "Quaternion", "Miller"):
            for j in range(KR):
                dim = 4 if cls == "Quaternion" else 3
                a, b = [(3, 2), (4, 3), (2, 4)][k % 3]
                rep = {"cls": cls, "op": op, "point_group": ["m-3m", "6/mmm", "-1"][k % 3],
                       "data": np.array(sep_rows(dim, a * b, 1 + k % 3)).reshape(a, b, dim).tolist()}
                go("history", rep, f"{cls}/{op}")
                k += 1
    k = 0
    for op in ROT_OPS:
        for cls in ("Rotation", "Orientation", "Misorientation"):
            for j in range(KR):
                set_backend(k % 3 != 0)
                a, b = [(3, 2), (4, 3), (2, 4)][k % 3]
                qs, imps = sep_quats(a * b, 1 + k % 3)
                rep = {"cls": cls, "op": op, "antipodal": k % 2 == 0,
                       "q": np.array(qs).reshape(a, b, 4).tolist(), "improper": np.array(imps).reshape(a, b).tolist()}
                go("history", rep, f"{cls}/{op}")
                k += 1
    set_backend(True)
    # 8. large collections, >= 4 axes, size-1 axes in every position
    B_SHAPES = [(600,), (20, 30), (4, 5, 6, 5), (3, 1, 4), (1, 5, 1), (2, 1, 1, 3), (2, 3, 2, 2), (1, 1, 1), (5, 1),
                (2, 2, 2, 2, 2)]
    B_CLS = [("Vector3d", None), ("Rotation", True), ("Quaternion", None), ("Orientation", False), ("Miller", None),
             ("Rotation", False), ("Misorientation", True)]
    for k in range(len(B_SHAPES) * len(B_CLS) if KR > 1 else 30):
        set_backend(k % 3 != 0)
        shape = B_SHAPES[k % len(B_SHAPES)]
        cls, ap = B_CLS[k % len(B_CLS)]
        n = int(np.prod(shape))
        npool = [1, 2, 5, 40][k % 4] if n > 30 else [1, 2, 3][k % 3]
        rep = {"cls": cls, "shape": list(shape)}
        if ap is None:
            rep["data"] = sep_rows(4 if cls == "Quaternion" else 3, n, npool)
            rep["point_group"] = "m-3m"
        else:
            rep["q"], rep["improper"] = sep_quats(n, npool)
            rep["antipodal"] = ap
        go("brute", rep, f"{cls}/ndim={len(shape)}/n={'>30' if n > 30 else '<=30'}")
    set_backend(True)
    # 9. groups built through unique(): products of named groups of different classes in both orders
    GP = [("432", "-42m"), ("-42m", "432"), ("622", "3m"), ("3m", "622"), ("m-3m", "6/mmm"), ("6/mmm", "m-3m"),
          ("mm2", "-4"), ("-4", "mm2"), ("1", "-1"), ("-1", "1"), ("222", "m11"), ("m11", "222"), ("23", "-6"),
          ("-6", "23"), ("-43m", "-43m"), ("321", "312"), ("312", "321"), ("m-3", "m-3"), ("4/mmm", "422"),
          ("-3m", "-6m2")]
    names = list(GROUPS)
    for k in range(8 * KR):
        GP.append((names[R.randrange(len(names))], names[R.randrange(len(names))]))
    for k, (a, b) in enumerate(GP):
        set_backend(k % 3 != 0)
        go("group", {"cls": "Symmetry", "kind": "product", "g1": a, "g2": b}, "product")
    for k, a in enumerate(names):
        set_backend(k % 3 != 0)
        go("group", {"cls": "Symmetry", "kind": "from_generators:whole", "g1": a}, "from_generators")
        go("group", {"cls": "Symmetry", "kind": "from_generators:split", "g1": a}, "from_generators")
    set_backend(True)
    # 10. Miller(use_symmetry=True) for point groups outside the six above: improper groups WITHOUT the inversion
    #     (v and -v are not equivalent; the improper flags of the operations matter), trigonal and proper groups.
    #     Oracle only (record=False): the Coq model was validated bit for bit on the six groups above; on these
    #     groups an image that lands exactly on a 10-decimal tie (point group 32, [1.3333333333, 0, -0.4] rotated
    #     by 120 degrees -> -0.66666666665) depends on the last bit of the product, where model and numpy differ
    for k in range(len(XPHASES) * (1 if KR == 1 else 3)):
        set_backend(k % 3 != 0)
        name = list(XPHASES)[k % len(XPHASES)]
        ph = phase_by_name(name)
        n = [3, 4, 6, 8][k % 4]
        xyz, kinds = gen_miller(n, ph)
        shape = SHAPES[n][k % len(SHAPES[n])]
        tag = f"audit/miller-sym/{name}/ndim={len(shape)}"
        st(tag)
        run_miller_sym(name, ph, xyz, shape, tag, record=False)
    set_backend(True)

    emit({"cases": cases, "fails": fails, "strata": strata, "witness": witness})
