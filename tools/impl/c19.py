"""C19 implementation harness (runs under /venv python, PYTHONPATH=/repo).

Two jobs on /repo's working tree:
 * observations for the Coq correspondence (step counts, SO(3) grids, filter+unique of
   get_sample_fundamental / get_sample_local, S2 meshes, reduced fundamental sample);
 * the property oracle: inside the zone (independent Voronoi criterion), no duplicates,
   covering radius of stratified probes, local angle bound, S2 unit norm + covering,
   reduced sample exactness.
"""
import math
from fractions import Fraction

import numpy as np
from common import emit, payload, rng
from scipy.spatial import cKDTree

from orix.quaternion import OrientationRegion, Rotation
from orix.quaternion import symmetry as S
from orix.sampling import (get_sample_fundamental, get_sample_local,
                           get_sample_reduced_fundamental, sample_S2)
from orix.sampling import S2_sampling as S2mod
from orix.sampling import SO3_sampling as SO3
from orix.sampling import _polyhedral_sampling as poly
from orix.sampling._cubochoric_sampling import (cubochoric_sampling,
                                                resolution_to_semi_edge_steps)
from orix.vector import Vector3d

P = payload()
R = rng(P.get("seed", 0))
TIER = P.get("tier", "quick")
NPR = np.random.default_rng(P.get("seed", 0) % (2 ** 32))

cases = []
fails = []
strata = {}
measured = {}


def st(k, n=1):
    strata[k] = strata.get(k, 0) + n


def fail(sig, what, rep):
    fails.append({"sig": sig, "what": what, "replay": rep})


PROPER11 = [("1", S.C1), ("2", S.C2), ("222", S.D2), ("4", S.C4), ("422", S.D4), ("3", S.C3),
            ("32", S.D3), ("6", S.C6), ("622", S.D6), ("23", S.T), ("432", S.O)]
EXTRA_SETTINGS = [("211", S.C2x), ("121", S.C2y), ("321", S.D3x), ("312", S.D3y)]
METHODS = ["cubochoric", "haar_euler", "quaternion"]
SYSTEMS = ["triclinic", "monoclinic", "orthorhombic", "tetragonal", "cubic", "trigonal", "hexagonal"]
S2M = ["uv", "equal_area", "normalized_cube", "spherified_cube_edge", "spherified_cube_corner",
       "icosahedral", "hexagonal"]


def ql(a):
    return np.asarray(a, float).reshape(-1, 4).tolist()


def vl(a):
    return np.asarray(a, float).reshape(-1, 3).tolist()


# ===================================================================== correspondence
# ---- step counts
RES_FIXED = [1, 1.5, 2, 2.5, 3, 4, 5, 6, 7.5, 8, 10, 12.5, 15, 20, 30, 45, 60, 90, 120, 0.75, 0.5]
res_list = list(RES_FIXED)
for _ in range(40 if TIER == "quick" else 400):
    k = R.choice([1, 2, 4, 8, 16, 64])
    res_list.append(R.randint(1, 200 * k) / k)
for res in res_list:
    fr = Fraction(res)
    for even, odd in ((False, False), (True, False), (False, True)):
        n = SO3._resolution_to_num_steps(res, even_only=even, odd_only=odd)
        c = {"k": "steps", "num": fr.numerator, "den": fr.denominator, "even": even, "odd": odd, "n": int(n)}
        if not even and not odd:
            c["semi"] = int(resolution_to_semi_edge_steps(float(res))) if res > 0.05 else None
            az, po = S2mod._sample_S2_uv_mesh_coordinates(res)
            c["uv"] = [len(az), len(po)]
            az, po = S2mod._sample_S2_equal_area_coordinates(res)
            c["ea"] = [len(az), len(po)]
        cases.append(c)
        st("steps")

# ---- transcendental step counts (relational)
for res in [3, 4, 5, 7.5, 9, 10, 11, 15, 20, 22.5, 30, 33, 45] + [R.uniform(2, 50) for _ in range(12)]:
    for gt, fn in ((0, poly._edge_grid_normalized_cube), (1, poly._edge_grid_spherified_edge_cube),
                   (2, poly._edge_grid_spherified_corner_cube)):
        g = fn(res)
        cases.append({"k": "ceil", "what": gt, "res": float(res), "n": len(g) // 2})
    # hexagonal: n before the parity fix is not observable; the number of points is
    nh = int(np.ceil(2 / np.tan(np.deg2rad(res))))
    cases.append({"k": "ceil", "what": 3, "res": float(res), "n": nh, "size": int(sample_S2(res, method="hexagonal").size)})
    # icosahedral: size = 10 n^2 + 2
    sz = sample_S2(res, method="icosahedral").size
    ni = int(round(math.sqrt((sz - 2) / 10)))
    cases.append({"k": "ceil", "what": 4, "res": float(res), "n": ni, "size": int(sz)})
    st("ceil", 5)

# ---- SO(3) grids, bit-exact observation of the whole array
GRID_SPECS = [("cubochoric", 1), ("cubochoric", 2), ("cubochoric", 3), ("haar_euler", 4), ("haar_euler", 6),
              ("quaternion", 2), ("quaternion", 3), ("quaternion", 5)]
if TIER != "quick":
    GRID_SPECS += [("cubochoric", 4), ("cubochoric", 5), ("haar_euler", 8), ("haar_euler", 10), ("quaternion", 6),
                   ("quaternion", 7)]


def raw_grid(method, n):
    if method == "cubochoric":
        return cubochoric_sampling(semi_edge_steps=n)
    res = 360.0 / n
    if method == "haar_euler":
        g = SO3._euler_angles_haar_measure(res, unique=False)
    else:
        g = SO3._three_uniform_samples_method(res, unique=False)
    return g


for method, n in GRID_SPECS:
    g = raw_grid(method, n)
    cases.append({"k": "grid", "method": METHODS.index(method), "n": n, "out": ql(g.data)})
    st(f"grid/{method}")

# ---- three-uniform grid with max_angle (get_sample_local, method="quaternion")
for res, gw in [(60, 100.0), (45, 77.7), (72, 140.0), (40, 61.3)] + ([(30, 95.5), (36, 44.4)] if TIER != "quick" else []):
    n = SO3._resolution_to_num_steps(res)
    e1 = np.cos(np.deg2rad(gw / 2))
    u1 = 1 - np.square(e1)
    u2 = np.arcsin(e1) / 2 / np.pi
    num1 = int(n * u1 + 0.5)
    num2 = int(n * (1 - u2) + 0.5)
    g = SO3._three_uniform_samples_method(res, unique=False, max_angle=gw)
    cases.append({"k": "lgrid", "n": int(n), "num1": num1, "num2": num2, "gw": gw, "out": ql(g.data)})
    st("grid/quaternion-local")

# ---- get_sample_fundamental = unique(filter(region, grid)), on the implementation's grid
FUND_SPECS = [("cubochoric", 3), ("haar_euler", 6), ("quaternion", 5)]
if TIER != "quick":
    FUND_SPECS += [("cubochoric", 5), ("haar_euler", 10), ("quaternion", 8), ("cubochoric", 6)]
normals_of = {}
for name, G in PROPER11 + EXTRA_SETTINGS:
    normals_of[name] = OrientationRegion.from_symmetry(G).data.reshape(-1, 4)
for method, n in FUND_SPECS:
    grid = raw_grid(method, n)
    if method == "cubochoric":
        kw = {"semi_edge_steps": n}
        res = 1.0
    else:
        kw = {}
        res = 360.0 / n
    subs = []
    for name, G in PROPER11 + (EXTRA_SETTINGS if TIER != "quick" else []):
        out = get_sample_fundamental(res, point_group=G, method=method, **kw)
        subs.append({"group": name, "normals": ql(normals_of[name]), "out": ql(out.data)})
        st(f"fund/{method}/{name}")
    cases.append({"k": "fund", "method": method, "n": n, "grid": ql(grid.data), "subs": subs})

# ---- get_sample_local = [center *] unique(filter(angle, grid))
LOC = [("cubochoric", 30.0, 47.7, False), ("haar_euler", 60.0, 93.1, True), ("quaternion", 60.0, 100.0, True),
       ("cubochoric", 45.0, 101.3, True), ("haar_euler", 45.0, 61.7, False), ("quaternion", 45.0, 77.7, False)]
for method, res, gw, with_center in LOC:
    if method == "haar_euler":
        grid = SO3.uniform_SO3_sample(res, method=method, unique=False)
    elif method == "quaternion":
        grid = SO3._three_uniform_samples_method(res, unique=False, max_angle=gw)
    else:
        grid = cubochoric_sampling(resolution=res)
    center = None
    if with_center:
        q = np.array([R.gauss(0, 1) for _ in range(4)])
        center = Rotation(q / np.linalg.norm(q))
    out = get_sample_local(res, center=center, grid_width=gw, method=method)
    cases.append({"k": "local", "method": method, "gw": gw, "center": None if center is None else ql(center.data)[0],
                  "grid": ql(grid.data), "out": ql(out.data)})
    st(f"local/{method}/center={with_center}")

# ---- S2 meshes
S2_SPECS = [("uv", 45.0), ("uv", 40.0), ("equal_area", 45.0), ("equal_area", 30.0), ("normalized_cube", 40.0),
            ("spherified_cube_edge", 25.0), ("spherified_cube_corner", 33.0), ("hexagonal", 40.0),
            ("hexagonal", 28.0), ("icosahedral", 33.0), ("icosahedral", 20.0)]
if TIER != "quick":
    S2_SPECS += [("uv", 13.0), ("equal_area", 11.0), ("normalized_cube", 14.0), ("spherified_cube_edge", 9.0),
                 ("spherified_cube_corner", 12.0), ("hexagonal", 13.0), ("icosahedral", 9.0)]


def ico_edges():
    """the python set of edges, rebuilt with the statements of _compose_from_faces"""
    faces = [(0, 11, 5), (0, 5, 1), (0, 1, 7), (0, 7, 10), (0, 10, 11), (1, 5, 9), (5, 11, 4), (11, 10, 2),
             (10, 7, 6), (7, 1, 8), (3, 9, 4), (3, 4, 2), (3, 2, 6), (3, 6, 8), (3, 8, 9), (4, 9, 5), (2, 4, 11),
             (6, 2, 10), (8, 6, 7), (9, 8, 1)]
    edges = set()
    for face in faces:
        edges.add(tuple(sorted([face[0], face[1]])))
        edges.add(tuple(sorted([face[1], face[2]])))
        edges.add(tuple(sorted([face[2], face[0]])))
    return [list(e) for e in edges]


for m, res in S2_SPECS:
    v = sample_S2(res, method=m)
    c = {"k": "s2", "method": S2M.index(m), "res": res, "out": vl(v.data)}
    if m == "uv":
        az, po = S2mod._sample_S2_uv_mesh_coordinates(res)
        c["p"] = [len(az), len(po)]
    elif m == "equal_area":
        az, po = S2mod._sample_S2_equal_area_coordinates(res)
        c["p"] = [len(az), len(po)]
    elif m.endswith("cube") or "cube" in m:
        fn = {"normalized_cube": poly._edge_grid_normalized_cube,
              "spherified_cube_edge": poly._edge_grid_spherified_edge_cube,
              "spherified_cube_corner": poly._edge_grid_spherified_corner_cube}[m]
        c["p"] = [len(fn(res)) // 2]
    elif m == "hexagonal":
        n = int(np.ceil(2 / np.tan(np.deg2rad(res))))
        if n % 2 == 1:
            n += 1
        c["p"] = [n]
    else:
        c["p"] = [int(round(math.sqrt((v.size - 2) / 10)))]
        c["edges"] = ico_edges()
    cases.append(c)
    st(f"s2/{m}")

# ---- reduced fundamental sample, all 38 point groups
RED_RES = 30.0 if TIER == "quick" else 17.0
DEFAULT = {"triclinic": "icosahedral", "monoclinic": "icosahedral", "orthorhombic": "spherified_cube_edge",
           "tetragonal": "spherified_cube_edge", "cubic": "spherified_cube_edge", "trigonal": "hexagonal",
           "hexagonal": "hexagonal"}
s2_cache = {}
for G in S._groups:
    out = get_sample_reduced_fundamental(RED_RES, point_group=G)
    # which S2 method reproduces the default?
    obs = -1
    for mi, m in enumerate(["icosahedral", "spherified_cube_edge", "hexagonal"]):
        o2 = get_sample_reduced_fundamental(RED_RES, method=m, point_group=G)
        if o2.shape == out.shape and np.array_equal(o2.data, out.data):
            obs = mi if obs == -1 else obs
            if DEFAULT[G.system] == m:
                obs = mi
    m = ["icosahedral", "spherified_cube_edge", "hexagonal"][obs]
    if m not in s2_cache:
        s2_cache[m] = sample_S2(RED_RES, method=m)
    pts = s2_cache[m]
    cases.append({"k": "reduced", "group": G.name, "system": SYSTEMS.index(G.system), "method": obs,
                  "normals": vl(G.fundamental_sector.data), "pts": vl(pts.data), "out": ql(out.data)})
    st(f"reduced/{G.name}")
# and a non-default method per system
for G, m in [(S.Oh, "uv"), (S.D6h, "equal_area"), (S.C2h, "normalized_cube"), (S.D3d, "spherified_cube_corner")]:
    out = get_sample_reduced_fundamental(RED_RES, method=m, point_group=G)
    pts = sample_S2(RED_RES, method=m)
    cases.append({"k": "reduced", "group": G.name, "system": -1, "method": -1,
                  "normals": vl(G.fundamental_sector.data), "pts": vl(pts.data), "out": ql(out.data)})
    st(f"reduced/{G.name}/{m}")


# ============================================================================ oracle
def qmul(p, q):
    a, b, c, d = p[..., 0], p[..., 1], p[..., 2], p[..., 3]
    e, f, g, h = q[..., 0], q[..., 1], q[..., 2], q[..., 3]
    return np.stack([a * e - b * f - c * g - d * h, a * f + b * e + c * h - d * g,
                     a * g - b * h + c * e + d * f, a * h + b * g - c * f + d * e], -1)


def qconj(q):
    return q * np.array([1, -1, -1, -1.0])


def randq(n):
    q = NPR.normal(size=(n, 4))
    return q / np.linalg.norm(q, axis=1)[:, None]


def chord2angle(d):
    """chord between unit quaternions (sign-identified) -> rotation angle, degrees"""
    return np.degrees(4 * np.arcsin(np.clip(d / 2, 0, 1)))


def eu2q(e):
    """independent Bunge ZXZ (passive) Euler -> quaternion, as orix defines it"""
    e = np.asarray(e, float)
    s, d = 0.5 * (e[:, 0] + e[:, 2]), 0.5 * (e[:, 0] - e[:, 2])
    c, sn = np.cos(e[:, 1] / 2), np.sin(e[:, 1] / 2)
    q = np.stack([c * np.cos(s), -sn * np.cos(d), -sn * np.sin(d), -c * np.sin(s)], -1)
    return q


def so3_probes(n):
    """stratified probes of SO(3): uniform, small angles, angles near pi, Euler poles
    (Phi ~ 0, Phi ~ pi), three-uniform-samples poles (u1 ~ 0, u1 ~ 1), cubochoric cell
    centres on pyramid boundaries and cube faces"""
    out = [("uniform", randq(n))]
    ax = NPR.normal(size=(n // 4, 3))
    ax /= np.linalg.norm(ax, axis=1)[:, None]
    w = NPR.uniform(0, np.radians(12), n // 4)
    out.append(("small-angle", np.column_stack([np.cos(w / 2), ax * np.sin(w / 2)[:, None]])))
    w = np.pi - NPR.uniform(0, np.radians(12), n // 4)
    out.append(("near-pi", np.column_stack([np.cos(w / 2), ax * np.sin(w / 2)[:, None]])))
    e = np.column_stack([NPR.uniform(0, 2 * np.pi, n // 4), NPR.uniform(0, 0.25, n // 4), NPR.uniform(0, 2 * np.pi, n // 4)])
    out.append(("euler-Phi0", eu2q(e)))
    e2 = e.copy()
    e2[:, 1] = np.pi - e[:, 1] * NPR.uniform(0, 1, n // 4)
    out.append(("euler-PhiPi", eu2q(e2)))
    for nm, u1 in (("u1-0", NPR.uniform(0, 0.02, n // 4)), ("u1-1", 1 - NPR.uniform(0, 0.02, n // 4))):
        u2, u3 = NPR.uniform(0, 1, n // 4), NPR.uniform(0, 1, n // 4)
        a, b = np.sqrt(1 - u1), np.sqrt(u1)
        out.append((nm, np.column_stack([a * np.sin(2 * np.pi * u2), a * np.cos(2 * np.pi * u2),
                                        b * np.sin(2 * np.pi * u3), b * np.cos(2 * np.pi * u3)])))
    # the sheets u1 = 0 and u1 = 1 themselves (rotations about e1; rotations by pi about axes in the e2-e3
    # plane).  They are rows of the three-uniform grid (Coq: C19_three_uniform_reaches_sheets), so every
    # rotation ON a sheet is within half a u_2 / u_3 step of a grid point
    th = NPR.uniform(0, 2 * np.pi, n // 4)
    z = np.zeros(n // 4)
    out.append(("u1-0-sheet", np.column_stack([np.sin(th), np.cos(th), z, z])))
    out.append(("u1-1-sheet", np.column_stack([z, z, np.sin(th), np.cos(th)])))
    # cubochoric coordinates: pyramid boundaries |x|=|y|, |y|=|z|, |x|=|z|, faces, edges
    L = 0.5 * np.pi ** (2 / 3)
    cu = NPR.uniform(-L, L, size=(n // 2, 3))
    k = n // 8
    cu[:k, 1] = cu[:k, 0] * NPR.choice([-1, 1], k)
    cu[k:2 * k, 2] = cu[k:2 * k, 1] * NPR.choice([-1, 1], k)
    cu[2 * k:3 * k, 2] = cu[2 * k:3 * k, 0] * NPR.choice([-1, 1], k)
    cu[3 * k:, NPR.integers(0, 3)] = L * NPR.choice([-1, 1], len(cu) - 3 * k) * (1 - NPR.uniform(0, 0.03, len(cu) - 3 * k))
    from orix.quaternion import _conversions as cv
    qs = np.array([cv.ax2qu_single(cv.ro2ax_single(cv.cu2ro_single(x))) for x in cu])
    out.append(("cubochoric-boundaries", qs))
    return out


def so3_cell(method, res):
    """the method's own nominal largest cell (degrees): the resolution for the cubochoric
    grid; for the two grids that are uniform in a cos / sqrt parameter the first polar step
    (which shrinks like sqrt(res) only) if that is larger"""
    if method == "cubochoric":
        return res
    if method == "haar_euler":
        half = SO3._resolution_to_num_steps(res, even_only=True) // 2
        return max(res, math.degrees(math.acos(1 - 2 / half)))
    n = SO3._resolution_to_num_steps(res)
    return max(res, math.degrees(2 * math.asin(math.sqrt(1 / (n - 1)))))


# covering radius <= COVER_C[method] * so3_cell(method, res); measured
# (max over groups / strata / resolutions 12, 8, 6, 5): cubochoric 1.34, haar_euler 0.57
# (also in the last cos(beta) interval next to Phi = pi, where it was 1.02 before the row
# Phi = pi was added to the grid), quaternion 1.10
COVER_C = {"cubochoric": 1.6, "quaternion": 1.4, "haar_euler": 0.85}
SHEET_C = 1.05
ORES = [12.0, 8.0] if TIER == "quick" else [12.0, 8.0, 6.0, 5.0]
NPROBE = 1600 if TIER == "quick" else 4000
probes = so3_probes(NPROBE)

# ---- the space_group entry: the sample for space group n is the sample for its PROPER point group (the rotations of
# the point group, get_point_group(n, proper=True); theorem C03_spacegroup_* ties that table to the space-group
# operations) -- it must lie in that group's fundamental zone and equal the sample requested with point_group=
SG_ALL = list(range(1, 231))
SG_SEL = [1, 2, 3, 6, 10, 16, 25, 47, 75, 81, 83, 89, 99, 111, 123, 143, 147, 149, 156, 162, 168, 174, 175, 177, 183, 187, 191,
          195, 200, 207, 215, 221] if TIER == "quick" else SG_ALL
for method in (["cubochoric"] if TIER == "quick" else METHODS):
    for n in SG_SEL:
        P = S.get_point_group(n, proper=True)
        rot = get_sample_fundamental(12.0, space_group=n, method=method)
        st(f"oracle/fund-space-group/{method}")
        rep = {"call": f"get_sample_fundamental(12.0, space_group={n}, method={method!r})", "proper_point_group": P.name}
        q = rot.data.reshape(-1, 4)
        g = P.data.reshape(-1, 4)
        if q.shape[0]:
            viol = np.abs(q @ g.T).max(1) - np.abs(q[:, 0])
            i = int(np.argmax(viol))
            if viol[i] > 1e-7:
                fail(f"inside:{method}:space-group:{P.name}", f"space group {n}: rotation outside the fundamental zone of its proper point "
                     f"group {P.name}: a symmetry-equivalent has a smaller angle (excess {viol[i]:.3g})", dict(rep, q=q[i].tolist()))
        ref = get_sample_fundamental(12.0, point_group=P, method=method).data.reshape(-1, 4)
        if ref.shape != q.shape or not np.allclose(ref, q, atol=1e-12):
            fail(f"space-group-entry:{method}:{P.name}", f"the sample for space group {n} ({q.shape[0]} rotations) differs from the sample for "
                 f"its proper point group {P.name} ({ref.shape[0]} rotations)", rep)

for method in METHODS:
    # 10 degrees: an EVEN number of steps (36), the only case in which the "quaternion" grid contains both q and -q
    # for rotations by 180 degrees (low-order groups keep them in the zone)
    for res in ORES + ([10.0] if method == "quaternion" else []):
        for name, G in PROPER11 + (EXTRA_SETTINGS if TIER != "quick" else []):
            if res == 10.0 and TIER == "quick" and name not in ("1", "2", "3"):
                continue
            rot = get_sample_fundamental(res, point_group=G, method=method)
            q = rot.data.reshape(-1, 4)
            g = G.data.reshape(-1, 4)
            st(f"oracle/fund/{method}")
            rep = {"call": f"get_sample_fundamental({res}, point_group={name}, method={method!r})"}
            if q.shape[0] == 0:
                fail(f"empty:{method}:{name}", "fundamental sample is empty", rep)
                continue
            # unit
            if np.abs(np.linalg.norm(q, axis=1) - 1).max() > 1e-9:
                fail(f"unit:{method}:{name}", "sampled rotation is not a unit quaternion", rep)
            # inside: Voronoi cell of the identity among the group elements
            viol = np.abs(q @ g.T).max(1) - np.abs(q[:, 0])
            i = int(np.argmax(viol))
            if viol[i] > 1e-7:
                fail(f"inside:{method}:{name}", f"rotation outside the fundamental zone of {name}: "
                     f"a symmetry-equivalent has a smaller angle (excess {viol[i]:.3g})", dict(rep, q=q[i].tolist()))
            # duplicates
            tree = cKDTree(np.vstack([q, -q]))
            d, _ = tree.query(q, k=2)
            i = int(np.argmin(d[:, 1]))
            if chord2angle(d[i, 1]) < 1e-4:
                fail(f"dup:{method}:{name}", "two returned rotations coincide", dict(rep, q=q[i].tolist()))
            # covering
            worst = {}
            for stratum, Pq in probes:
                best = np.full(len(Pq), 10.0)
                arg = np.zeros(len(Pq), int)
                for gi, ge in enumerate(g):
                    dd, _ = tree.query(qmul(Pq, ge[None, :]))
                    upd = dd < best
                    best[upd] = dd[upd]
                    arg[upd] = gi
                ang = chord2angle(best)
                i = int(np.argmax(ang))
                if method == "haar_euler":
                    # separate the probes whose nearest equivalent lies in the last cos(beta)
                    # interval [-1, -1 + 2/half] (before the repair of _euler_angles_haar_measure the
                    # grid had no row Phi = pi at its end): they keep their own signature, so a
                    # regression of that repair is reported as such
                    pe = qmul(Pq, g[arg])
                    Phi = 2 * np.arctan2(np.hypot(pe[:, 1], pe[:, 2]), np.hypot(pe[:, 0], pe[:, 3]))
                    n_steps = SO3._resolution_to_num_steps(res, even_only=True)
                    hole = Phi > math.acos(-1 + 2 / (n_steps // 2))
                    if hole.any():
                        i = int(np.argmax(np.where(hole, ang, -1)))
                        worst["Phi-pi-hole/" + stratum] = (ang[i], Pq[i])
                        key = f"cover/{method}/Phi-pi-hole/res={res}"
                        measured[key] = max(measured.get(key, 0), float(ang[i] / so3_cell(method, res)))
                    ang = np.where(hole, -1, ang)
                i = int(np.argmax(ang))
                worst[stratum] = (ang[i], Pq[i])
                key = f"cover/{method}/{stratum}/res={res}"
                measured[key] = max(measured.get(key, 0), float(ang[i] / so3_cell(method, res)))
            for stratum, (a, p) in worst.items():
                bound = COVER_C[method] * so3_cell(method, res)
                how = f"{COVER_C[method]} x the grid's nominal cell {so3_cell(method, res):.2f} deg"
                if method == "quaternion" and stratum.endswith("-sheet") and name == "1":
                    # point group 1 keeps the whole grid, and on a sheet only u_2 resp. u_3 varies: half a
                    # step 360/n <= res of that circle of quaternions is a rotation distance of at most res
                    bound = SHEET_C * res
                    how = f"{SHEET_C} x the resolution (the sheet {stratum[:4]} is a row of the grid)"
                    measured[f"cover/{method}/{stratum}/res={res}/C1-vs-res"] = float(a / res)
                if a > bound:
                    sig = f"cover:{method}:{name}"
                    if stratum.startswith("Phi-pi-hole"):
                        sig = f"cover:haar_euler:Phi-pi-hole:{name}"
                    fail(sig, f"orientation (stratum {stratum}) is {a:.2f} deg from the nearest grid point or "
                         f"symmetry-equivalent: more than {how} at resolution {res}", dict(rep, probe=p.tolist()))

# ---- the cubochoric outer layer (rotations by pi) must be sampled, also for the N with
# N * (L / N) > L in floating point (65, 130, 260)
L = 0.5 * np.pi ** (2 / 3)
for N in ([65] if TIER == "quick" else [65, 130]) + [10, 33, 64, 66]:
    if N > 70 and TIER == "quick":
        continue
    n = cubochoric_sampling(semi_edge_steps=N).size
    st("oracle/cubochoric-size")
    if n != (2 * N) ** 3:
        fail(f"cubochoric:outer-layer-dropped:N={N}", f"cubochoric_sampling(semi_edge_steps={N}) returns {n} rotations "
             f"instead of (2N)^3 = {(2 * N) ** 3}: the layer i = N (all rotations by 180 deg) is discarded because "
             f"N * (L / N) > L in floating point", {"call": f"cubochoric_sampling(semi_edge_steps={N})"})

# ---- local samples
for method in METHODS:
    for res, gw in [(8.0, 20.0), (10.0, 35.0), (6.0, 15.0)]:
        for with_center in (False, True):
            center = Rotation(randq(1)) if with_center else None
            rot = get_sample_local(res, center=center, grid_width=gw, method=method)
            st(f"oracle/local/{method}")
            q = rot.data.reshape(-1, 4)
            rep = {"call": f"get_sample_local({res}, center={None if center is None else center.data.tolist()}, "
                           f"grid_width={gw}, method={method!r})"}
            if q.shape[0] == 0:
                continue
            rel = q if center is None else qmul(qconj(center.data.reshape(1, 4)), q)
            ang = np.degrees(2 * np.arccos(np.clip(np.abs(rel[:, 0]), 0, 1)))
            i = int(np.argmax(ang))
            if ang[i] > gw + 1e-6:
                fail(f"local:angle:{method}", f"local sample {ang[i]:.3f} deg from its centre, grid_width {gw}",
                     dict(rep, q=q[i].tolist()))
            if q.shape[0] > 1:
                tree = cKDTree(np.vstack([q, -q]))
                d, _ = tree.query(q, k=2)
                if chord2angle(d[:, 1].min()) < 1e-4:
                    fail(f"local:dup:{method}", "two returned local rotations coincide", rep)


# ---- S2 meshes
def s2_probes(n):
    v = NPR.normal(size=(n, 3))
    out = [("uniform", v / np.linalg.norm(v, axis=1)[:, None])]
    # poles and polar caps
    t = NPR.uniform(0, 0.15, n // 4)
    p = NPR.uniform(0, 2 * np.pi, n // 4)
    cap = np.column_stack([np.sin(t) * np.cos(p), np.sin(t) * np.sin(p), np.cos(t)])
    out.append(("polar-caps", np.vstack([cap, -cap, [[0, 0, 1.0], [0, 0, -1.0]]])))
    # cube edges and corners, equator (hexagonal rim)
    e = NPR.uniform(-1, 1, size=(n // 4, 3))
    e[:, 0] = NPR.choice([-1, 1], n // 4)
    e[:, 1] = NPR.choice([-1, 1], n // 4) * (1 - NPR.uniform(0, 0.05, n // 4))
    e = e[:, NPR.permutation(3)]
    out.append(("cube-edges", e / np.linalg.norm(e, axis=1)[:, None]))
    p = NPR.uniform(0, 2 * np.pi, n // 4)
    z = NPR.uniform(-0.05, 0.05, n // 4)
    eq = np.column_stack([np.cos(p), np.sin(p), z])
    out.append(("equator", eq / np.linalg.norm(eq, axis=1)[:, None]))
    return out


def s2_cell(m, res):
    """nominal cell of an S2 mesh: the resolution, except for the equal-area mesh whose polar
    rows are uniform in cos(polar) (first row at acos(1 - 1/steps), documented: the
    resolution is that of the azimuth only)"""
    if m == "equal_area":
        steps = int(np.ceil(90 / res))
        return max(res, math.degrees(math.acos(1 - 1 / steps)))
    return res


# measured on the unchanged tree (resolutions 15 ... 1): uv 0.704 (theorem: 1/sqrt 2), equal_area 0.56,
# normalized 0.67, spherified edge 0.66, spherified corner 0.55, icosahedral 0.57, hexagonal 0.55
S2_C = {"uv": 0.75, "equal_area": 0.75, "normalized_cube": 0.8, "spherified_cube_edge": 0.8,
        "spherified_cube_corner": 0.7, "icosahedral": 0.7, "hexagonal": 0.7}
sprobes = s2_probes(20000 if TIER == "quick" else 80000)
for m in S2M:
    for res in ([10.0, 4.0] if TIER == "quick" else [15.0, 10.0, 4.0, 2.0, 1.0]):
        v = sample_S2(res, method=m).data.reshape(-1, 3)
        st(f"oracle/s2/{m}")
        rep = {"call": f"sample_S2({res}, method={m!r})"}
        if np.abs(np.linalg.norm(v, axis=1) - 1).max() > 1e-12:
            fail(f"s2:unit:{m}", "S2 sample is not a unit vector", rep)
        tree = cKDTree(v)
        for stratum, Pv in sprobes:
            d, _ = tree.query(Pv)
            ang = np.degrees(2 * np.arcsin(np.clip(d / 2, 0, 1)))
            i = int(np.argmax(ang))
            key = f"s2cover/{m}/{stratum}/res={res}"
            measured[key] = max(measured.get(key, 0), float(ang[i] / s2_cell(m, res)))
            if ang[i] > S2_C[m] * s2_cell(m, res):
                fail(f"s2:cover:{m}", f"direction (stratum {stratum}) is {ang[i]:.3f} deg from the nearest mesh point: "
                     f"more than {S2_C[m]} x the nominal cell {s2_cell(m, res):.2f} deg at resolution {res}",
                     dict(rep, probe=Pv[i].tolist()))

# ---- reduced fundamental sample
for G in S._groups:
    for res in ([6.0] if TIER == "quick" else [6.0, 3.0]):
        rot = get_sample_reduced_fundamental(res, point_group=G)
        st("oracle/reduced")
        q = rot.data.reshape(-1, 4)
        rep = {"call": f"get_sample_reduced_fundamental({res}, point_group={G.name})"}
        if q.shape[0] == 0:
            fail(f"reduced:empty:{G.name}", "reduced fundamental sample is empty", rep)
            continue
        vz = (rot * Vector3d.zvector()).data.reshape(-1, 3)
        nrm = G.fundamental_sector.data.reshape(-1, 3)
        m = DEFAULT[G.system]
        mesh = sample_S2(res, method=m).data.reshape(-1, 3)
        keep = np.all(mesh @ nrm.T > -1e-9, axis=1) if len(nrm) else np.ones(len(mesh), bool)
        ref = mesh[keep]
        if ref.shape != vz.shape or np.abs(ref - vz).max() > 1e-9:
            err = float("nan") if ref.shape != vz.shape else float(np.abs(ref - vz).max())
            fail(f"reduced:exact:{G.name}", f"R * z differs from the sector's mesh directions (max err {err:.3g})", rep)
        if len(nrm) and (vz @ nrm.T).min() < -1e-8:
            fail(f"reduced:inside:{G.name}", "R * z lies outside the fundamental sector", rep)
        if np.abs(q[:, 0] * q[:, 2] - q[:, 1] * q[:, 3]).max() > 1e-9:
            fail(f"reduced:phi1:{G.name}", "first Euler angle of a reduced sample is not 0", rep)
        # covering of the sector
        Pv = sprobes[0][1]
        inside = np.all(Pv @ nrm.T > 0, axis=1) if len(nrm) else np.ones(len(Pv), bool)
        if inside.any():
            d, _ = cKDTree(vz).query(Pv[inside])
            ang = np.degrees(2 * np.arcsin(np.clip(d / 2, 0, 1)))
            key = f"reduced-cover/{m}"
            measured[key] = max(measured.get(key, 0), float(ang.max() / res))
            if ang.max() > 1.0 * res:
                fail(f"reduced:cover:{G.name}", f"sector direction {ang.max():.3f} deg (> 1.0 x {res}) from the nearest "
                     f"R * z", dict(rep, probe=Pv[inside][int(np.argmax(ang))].tolist()))

emit({"cases": cases, "fails": fails, "strata": strata, "measured": measured})
