"""C19 implementation harness (runs under /venv python, PYTHONPATH=/repo).

Two jobs on /repo's working tree:
 * observations for the Coq correspondence (step counts, SO(3) grids, filter+unique of
   get_sample_fundamental / get_sample_local, S2 meshes, reduced fundamental sample);
 * the property oracle: inside the zone (independent Voronoi criterion), no duplicates,
   covering radius of stratified probes, local angle bound, S2 unit norm + covering,
   reduced sample exactness.
"""
import math
from fractions import Fraction

import numpy as np
from common import emit, payload, rng
from scipy.spatial import cKDTree

from orix.quaternion import OrientationRegion, Rotation
from orix.quaternion import symmetry as S
from orix.sampling import (get_sample_fundamental, get_sample_local,
                           get_sample_reduced_fundamental, sample_S2)
from orix.sampling import S2_sampling as S2mod
from orix.sampling import SO3_sampling as SO3
from orix.sampling import _polyhedral_sampling as poly
from orix.sampling._cubochoric_sampling import (cubochoric_sampling,
                                                resolution_to_semi_edge_steps)
from orix.vector import Vector3d

P = payload()
R = rng(P.get("seed", 0))
TIER = P.get("tier", "quick")
NPR = np.random.default_rng(P.get("seed", 0) % (2 ** 32))

cases = []
fails = []
strata = {}
measured = {}


def st(k, n=1):
    strata[k] = strata.get(k, 0) + n


def fail(sig, what, rep):
    fails.append({"sig": sig, "what": what, "replay": rep})


PROPER11 = [("1", S.C1), ("2", S.C2), ("222", S.D2), ("4", S.C4), ("422", S.D4), ("3", S.C3),
            ("32", S.D3), ("6", S.C6), ("622", S.D6), ("23", S.T), ("432", S.O)]
EXTRA_SETTINGS = [("211", S.C2x), ("121", S.C2y), ("321", S.D3x), ("312", S.D3y)]
# nearest-neighbour searches must not crash on samples with NaN / inf rows (a defective sampler): such rows are reported
# once per search and moved to distinct far-away points, so that indices and shapes of the other rows are kept
_cKDTree = cKDTree


def _sanitise(a, base):
    a = np.array(a, dtype=float, copy=True)
    if a.ndim != 2 or a.size == 0:
        return a, 0
    bad = ~np.all(np.isfinite(a), axis=1)
    for k in np.flatnonzero(bad):
        a[k] = base + 10.0 * (k + 1)
    return a, int(bad.sum())


class _SafeTree:
    def __init__(self, a):
        a, nbad = _sanitise(a, 1e3)
        if nbad:
            fails.append({"sig": "finite:nearest-neighbour-input", "what": f"{nbad} of {len(a)} sampled rotations / directions have NaN or inf "
                          "components", "replay": {"n_bad": nbad, "n": int(len(a))}})
        self.t = _cKDTree(a)

    def query(self, x, *args, **kw):
        x, _ = _sanitise(x, -1e3)
        return self.t.query(x, *args, **kw)


def cKDTree(a):  # noqa: F811
    return _SafeTree(a)


METHODS = ["cubochoric", "haar_euler", "quaternion"]
SYSTEMS = ["triclinic", "monoclinic", "orthorhombic", "tetragonal", "cubic", "trigonal", "hexagonal"]
S2M = ["uv", "equal_area", "normalized_cube", "spherified_cube_edge", "spherified_cube_corner",
       "icosahedral", "hexagonal"]


def ql(a):
    return np.asarray(a, float).reshape(-1, 4).tolist()


def vl(a):
    return np.asarray(a, float).reshape(-1, 3).tolist()


# ===================================================================== correspondence
# ---- step counts
RES_FIXED = [1, 1.5, 2, 2.5, 3, 4, 5, 6, 7.5, 8, 10, 12.5, 15, 20, 30, 45, 60, 90, 120, 0.75, 0.5]
res_list = list(RES_FIXED)
for _ in range(40 if TIER == "quick" else 400):
    k = R.choice([1, 2, 4, 8, 16, 64])
    res_list.append(R.randint(1, 200 * k) / k)
for res in res_list:
    fr = Fraction(res)
    for even, odd in ((False, False), (True, False), (False, True)):
        n = SO3._resolution_to_num_steps(res, even_only=even, odd_only=odd)
        c = {"k": "steps", "num": fr.numerator, "den": fr.denominator, "even": even, "odd": odd, "n": int(n)}
        if not even and not odd:
            c["semi"] = int(resolution_to_semi_edge_steps(float(res))) if res > 0.05 else None
            az, po = S2mod._sample_S2_uv_mesh_coordinates(res)
            c["uv"] = [len(az), len(po)]
            az, po = S2mod._sample_S2_equal_area_coordinates(res)
            c["ea"] = [len(az), len(po)]
        cases.append(c)
        st("steps")

# ---- transcendental step counts (relational)
for res in [3, 4, 5, 7.5, 9, 10, 11, 15, 20, 22.5, 30, 33, 45] + [R.uniform(2, 50) for _ in range(12)]:
    for gt, fn in ((0, poly._edge_grid_normalized_cube), (1, poly._edge_grid_spherified_edge_cube),
                   (2, poly._edge_grid_spherified_corner_cube)):
        g = fn(res)
        cases.append({"k": "ceil", "what": gt, "res": float(res), "n": len(g) // 2})
    # hexagonal: n before the parity fix is not observable; the number of points is
    nh = int(np.ceil(2 / np.tan(np.deg2rad(res))))
    cases.append({"k": "ceil", "what": 3, "res": float(res), "n": nh, "size": int(sample_S2(res, method="hexagonal").size)})
    # icosahedral: size = 10 n^2 + 2
    sz = sample_S2(res, method="icosahedral").size
    ni = int(round(math.sqrt((sz - 2) / 10)))
    cases.append({"k": "ceil", "what": 4, "res": float(res), "n": ni, "size": int(sz)})
    st("ceil", 5)

# ---- SO(3) grids, bit-exact observation of the whole array
GRID_SPECS = [("cubochoric", 1), ("cubochoric", 2), ("cubochoric", 3), ("haar_euler", 4), ("haar_euler", 6),
              ("quaternion", 2), ("quaternion", 3), ("quaternion", 5)]
if TIER != "quick":
    GRID_SPECS += [("cubochoric", 4), ("cubochoric", 5), ("haar_euler", 8), ("haar_euler", 10), ("quaternion", 6),
                   ("quaternion", 7)]


def raw_grid(method, n):
    if method == "cubochoric":
        return cubochoric_sampling(semi_edge_steps=n)
    res = 360.0 / n
    if method == "haar_euler":
        g = SO3._euler_angles_haar_measure(res, unique=False)
    else:
        g = SO3._three_uniform_samples_method(res, unique=False)
    return g


for method, n in GRID_SPECS:
    g = raw_grid(method, n)
    cases.append({"k": "grid", "method": METHODS.index(method), "n": n, "out": ql(g.data)})
    st(f"grid/{method}")

# ---- three-uniform grid with max_angle (get_sample_local, method="quaternion")
for res, gw in [(60, 100.0), (45, 77.7), (72, 140.0), (40, 61.3)] + ([(30, 95.5), (36, 44.4)] if TIER != "quick" else []):
    n = SO3._resolution_to_num_steps(res)
    e1 = np.cos(np.deg2rad(gw / 2))
    u1 = 1 - np.square(e1)
    u2 = np.arcsin(e1) / 2 / np.pi
    num1 = int(n * u1 + 0.5)
    num2 = int(n * (1 - u2) + 0.5)
    g = SO3._three_uniform_samples_method(res, unique=False, max_angle=gw)
    cases.append({"k": "lgrid", "n": int(n), "num1": num1, "num2": num2, "gw": gw, "out": ql(g.data)})
    st("grid/quaternion-local")

# ---- get_sample_fundamental = unique(filter(region, grid)), on the implementation's grid
FUND_SPECS = [("cubochoric", 3), ("haar_euler", 6), ("quaternion", 5)]
if TIER != "quick":
    FUND_SPECS += [("cubochoric", 5), ("haar_euler", 10), ("quaternion", 8), ("cubochoric", 6)]
normals_of = {}
for name, G in PROPER11 + EXTRA_SETTINGS:
    normals_of[name] = OrientationRegion.from_symmetry(G).data.reshape(-1, 4)
for method, n in FUND_SPECS:
    grid = raw_grid(method, n)
    if method == "cubochoric":
        kw = {"semi_edge_steps": n}
        res = 1.0
    else:
        kw = {}
        res = 360.0 / n
    subs = []
    for name, G in PROPER11 + (EXTRA_SETTINGS if TIER != "quick" else []):
        out = get_sample_fundamental(res, point_group=G, method=method, **kw)
        subs.append({"group": name, "normals": ql(normals_of[name]), "out": ql(out.data)})
        st(f"fund/{method}/{name}")
    cases.append({"k": "fund", "method": method, "n": n, "grid": ql(grid.data), "subs": subs})

# ---- get_sample_local = [center *] unique(filter(angle, grid))
LOC = [("cubochoric", 30.0, 47.7, False), ("haar_euler", 60.0, 93.1, True), ("quaternion", 60.0, 100.0, True),
       ("cubochoric", 45.0, 101.3, True), ("haar_euler", 45.0, 61.7, False), ("quaternion", 45.0, 77.7, False)]
for method, res, gw, with_center in LOC:
    if method == "haar_euler":
        grid = SO3.uniform_SO3_sample(res, method=method, unique=False)
    elif method == "quaternion":
        grid = SO3._three_uniform_samples_method(res, unique=False, max_angle=gw)
    else:
        grid = cubochoric_sampling(resolution=res)
    center = None
    if with_center:
        q = np.array([R.gauss(0, 1) for _ in range(4)])
        center = Rotation(q / np.linalg.norm(q))
    out = get_sample_local(res, center=center, grid_width=gw, method=method)
    cases.append({"k": "local", "method": method, "gw": gw, "center": None if center is None else ql(center.data)[0],
                  "grid": ql(grid.data), "out": ql(out.data)})
    st(f"local/{method}/center={with_center}")

# ---- S2 meshes
S2_SPECS = [("uv", 45.0), ("uv", 40.0), ("equal_area", 45.0), ("equal_area", 30.0), ("normalized_cube", 40.0),
            ("spherified_cube_edge", 25.0), ("spherified_cube_corner", 33.0), ("hexagonal", 40.0),
            ("hexagonal", 28.0), ("icosahedral", 33.0), ("icosahedral", 20.0)]
if TIER != "quick":
    S2_SPECS += [("uv", 13.0), ("equal_area", 11.0), ("normalized_cube", 14.0), ("spherified_cube_edge", 9.0),
                 ("spherified_cube_corner", 12.0), ("hexagonal", 13.0), ("icosahedral", 9.0)]


def ico_edges():
    """the python set of edges, rebuilt with the statements of _compose_from_faces"""
    faces = [(0, 11, 5), (0, 5, 1), (0, 1, 7), (0, 7, 10), (0, 10, 11), (1, 5, 9), (5, 11, 4), (11, 10, 2),
             (10, 7, 6), (7, 1, 8), (3, 9, 4), (3, 4, 2), (3, 2, 6), (3, 6, 8), (3, 8, 9), (4, 9, 5), (2, 4, 11),
             (6, 2, 10), (8, 6, 7), (9, 8, 1)]
    edges = set()
    for face in faces:
        edges.add(tuple(sorted([face[0], face[1]])))
        edges.add(tuple(sorted([face[1], face[2]])))
        edges.add(tuple(sorted([face[2], face[0]])))
    return [list(e) for e in edges]


for m, res in S2_SPECS:
    v = sample_S2(res, method=m)
    c = {"k": "s2", "method": S2M.index(m), "res": res, "out": vl(v.data)}
    if m == "uv":
        az, po = S2mod._sample_S2_uv_mesh_coordinates(res)
        c["p"] = [len(az), len(po)]
    elif m == "equal_area":
        az, po = S2mod._sample_S2_equal_area_coordinates(res)
        c["p"] = [len(az), len(po)]
    elif m.endswith("cube") or "cube" in m:
        fn = {"normalized_cube": poly._edge_grid_normalized_cube,
              "spherified_cube_edge": poly._edge_grid_spherified_edge_cube,
              "spherified_cube_corner": poly._edge_grid_spherified_corner_cube}[m]
        c["p"] = [len(fn(res)) // 2]
    elif m == "hexagonal":
        n = int(np.ceil(2 / np.tan(np.deg2rad(res))))
        if n % 2 == 1:
            n += 1
        c["p"] = [n]
    else:
        c["p"] = [int(round(math.sqrt((v.size - 2) / 10)))]
        c["edges"] = ico_edges()
    cases.append(c)
    st(f"s2/{m}")

# ---- reduced fundamental sample, all 38 point groups
RED_RES = 30.0 if TIER == "quick" else 17.0
DEFAULT = {"triclinic": "icosahedral", "monoclinic": "icosahedral", "orthorhombic": "spherified_cube_edge",
           "tetragonal": "spherified_cube_edge", "cubic": "spherified_cube_edge", "trigonal": "hexagonal",
           "hexagonal": "hexagonal"}
s2_cache = {}
for G in S._groups:
    out = get_sample_reduced_fundamental(RED_RES, point_group=G)
    # which S2 method reproduces the default?
    obs = -1
    for mi, m in enumerate(["icosahedral", "spherified_cube_edge", "hexagonal"]):
        o2 = get_sample_reduced_fundamental(RED_RES, method=m, point_group=G)
        if o2.shape == out.shape and np.array_equal(o2.data, out.data):
            obs = mi if obs == -1 else obs
            if DEFAULT[G.system] == m:
                obs = mi
    m = ["icosahedral", "spherified_cube_edge", "hexagonal"][obs]
    if m not in s2_cache:
        s2_cache[m] = sample_S2(RED_RES, method=m)
    pts = s2_cache[m]
    cases.append({"k": "reduced", "group": G.name, "system": SYSTEMS.index(G.system), "method": obs,
                  "normals": vl(G.fundamental_sector.data), "pts": vl(pts.data), "out": ql(out.data)})
    st(f"reduced/{G.name}")
# and a non-default method per system
for G, m in [(S.Oh, "uv"), (S.D6h, "equal_area"), (S.C2h, "normalized_cube"), (S.D3d, "spherified_cube_corner")]:
    out = get_sample_reduced_fundamental(RED_RES, method=m, point_group=G)
    pts = sample_S2(RED_RES, method=m)
    cases.append({"k": "reduced", "group": G.name, "system": -1, "method": -1,
                  "normals": vl(G.fundamental_sector.data), "pts": vl(pts.data), "out": ql(out.data)})
    st(f"reduced/{G.name}/{m}")


# ============================================================================ oracle
def qmul(p, q):
    a, b, c, d = p[..., 0], p[..., 1], p[..., 2], p[..., 3]
    e, f, g, h = q[..., 0], q[..., 1], q[..., 2], q[..., 3]
    return np.stack([a * e - b * f - c * g - d * h, a * f + b * e + c * h - d * g,
                     a * g - b * h + c * e + d * f, a * h + b * g - c * f + d * e], -1)


def qconj(q):
    return q * np.array([1, -1, -1, -1.0])


def randq(n):
    q = NPR.normal(size=(n, 4))
    return q / np.linalg.norm(q, axis=1)[:, None]


def chord2angle(d):
    """chord between unit quaternions (sign-identified) -> rotation angle, degrees"""
    return np.degrees(4 * np.arcsin(np.clip(d / 2, 0, 1)))


def eu2q(e):
    """independent Bunge ZXZ (passive) Euler -> quaternion, as orix defines it"""
    e = np.asarray(e, float)
    s, d = 0.5 * (e[:, 0] + e[:, 2]), 0.5 * (e[:, 0] - e[:, 2])
    c, sn = np.cos(e[:, 1] / 2), np.sin(e[:, 1] / 2)
    q = np.stack([c * np.cos(s), -sn * np.cos(d), -sn * np.sin(d), -c * np.sin(s)], -1)
    return q


def so3_probes(n):
    """stratified probes of SO(3): uniform, small angles, angles near pi, Euler poles
    (Phi ~ 0, Phi ~ pi), three-uniform-samples poles (u1 ~ 0, u1 ~ 1), cubochoric cell
    centres on pyramid boundaries and cube faces"""
    out = [("uniform", randq(n))]
    ax = NPR.normal(size=(n // 4, 3))
    ax /= np.linalg.norm(ax, axis=1)[:, None]
    w = NPR.uniform(0, np.radians(12), n // 4)
    out.append(("small-angle", np.column_stack([np.cos(w / 2), ax * np.sin(w / 2)[:, None]])))
    w = np.pi - NPR.uniform(0, np.radians(12), n // 4)
    out.append(("near-pi", np.column_stack([np.cos(w / 2), ax * np.sin(w / 2)[:, None]])))
    e = np.column_stack([NPR.uniform(0, 2 * np.pi, n // 4), NPR.uniform(0, 0.25, n // 4), NPR.uniform(0, 2 * np.pi, n // 4)])
    out.append(("euler-Phi0", eu2q(e)))
    e2 = e.copy()
    e2[:, 1] = np.pi - e[:, 1] * NPR.uniform(0, 1, n // 4)
    out.append(("euler-PhiPi", eu2q(e2)))
    for nm, u1 in (("u1-0", NPR.uniform(0, 0.02, n // 4)), ("u1-1", 1 - NPR.uniform(0, 0.02, n // 4))):
        u2, u3 = NPR.uniform(0, 1, n // 4), NPR.uniform(0, 1, n // 4)
        a, b = np.sqrt(1 - u1), np.sqrt(u1)
        out.append((nm, np.column_stack([a * np.sin(2 * np.pi * u2), a * np.cos(2 * np.pi * u2),
                                        b * np.sin(2 * np.pi * u3), b * np.cos(2 * np.pi * u3)])))
    # the sheets u1 = 0 and u1 = 1 themselves (rotations about e1; rotations by pi about axes in the e2-e3
    # plane).  They are rows of the three-uniform grid (Coq: C19_three_uniform_reaches_sheets), so every
    # rotation ON a sheet is within half a u_2 / u_3 step of a grid point
    th = NPR.uniform(0, 2 * np.pi, n // 4)
    z = np.zeros(n // 4)
    out.append(("u1-0-sheet", np.column_stack([np.sin(th), np.cos(th), z, z])))
    out.append(("u1-1-sheet", np.column_stack([z, z, np.sin(th), np.cos(th)])))
    # cubochoric coordinates: pyramid boundaries |x|=|y|, |y|=|z|, |x|=|z|, faces, edges
    L = 0.5 * np.pi ** (2 / 3)
    cu = NPR.uniform(-L, L, size=(n // 2, 3))
    k = n // 8
    cu[:k, 1] = cu[:k, 0] * NPR.choice([-1, 1], k)
    cu[k:2 * k, 2] = cu[k:2 * k, 1] * NPR.choice([-1, 1], k)
    cu[2 * k:3 * k, 2] = cu[2 * k:3 * k, 0] * NPR.choice([-1, 1], k)
    cu[3 * k:, NPR.integers(0, 3)] = L * NPR.choice([-1, 1], len(cu) - 3 * k) * (1 - NPR.uniform(0, 0.03, len(cu) - 3 * k))
    from orix.quaternion import _conversions as cv
    qs = np.array([cv.ax2qu_single(cv.ro2ax_single(cv.cu2ro_single(x))) for x in cu])
    out.append(("cubochoric-boundaries", qs))
    return out


def so3_cell(method, res):
    """the method's own nominal largest cell (degrees): the resolution for the cubochoric
    grid; for the two grids that are uniform in a cos / sqrt parameter the first polar step
    (which shrinks like sqrt(res) only) if that is larger"""
    if method == "cubochoric":
        return res
    if method == "haar_euler":
        half = SO3._resolution_to_num_steps(res, even_only=True) // 2
        return max(res, math.degrees(math.acos(1 - 2 / half)))
    n = SO3._resolution_to_num_steps(res)
    return max(res, math.degrees(2 * math.asin(math.sqrt(1 / (n - 1)))))


# covering radius <= COVER_C[method] * so3_cell(method, res); measured
# (max over groups / strata / resolutions 12, 8, 6, 5): cubochoric 1.34, haar_euler 0.57
# (also in the last cos(beta) interval next to Phi = pi, where it was 1.02 before the row
# Phi = pi was added to the grid), quaternion 1.10
COVER_C = {"cubochoric": 1.6, "quaternion": 1.4, "haar_euler": 0.85}
SHEET_C = 1.05
ORES = [12.0, 8.0] if TIER == "quick" else [12.0, 8.0, 6.0, 5.0]
NPROBE = 1600 if TIER == "quick" else 4000
probes = so3_probes(NPROBE)

# ---- the space_group entry: the sample for space group n is the sample for its PROPER point group (the rotations of
# the point group, get_point_group(n, proper=True); theorem C03_spacegroup_* ties that table to the space-group
# operations) -- it must lie in that group's fundamental zone and equal the sample requested with point_group=
SG_ALL = list(range(1, 231))
SG_SEL = [1, 2, 3, 6, 10, 16, 25, 47, 75, 81, 83, 89, 99, 111, 123, 143, 147, 149, 156, 162, 168, 174, 175, 177, 183, 187, 191,
          195, 200, 207, 215, 221] if TIER == "quick" else SG_ALL
for method in (["cubochoric"] if TIER == "quick" else METHODS):
    for n in SG_SEL:
        P = S.get_point_group(n, proper=True)
        rot = get_sample_fundamental(12.0, space_group=n, method=method)
        st(f"oracle/fund-space-group/{method}")
        rep = {"call": f"get_sample_fundamental(12.0, space_group={n}, method={method!r})", "proper_point_group": P.name}
        q = rot.data.reshape(-1, 4)
        g = P.data.reshape(-1, 4)
        if q.shape[0]:
            viol = np.abs(q @ g.T).max(1) - np.abs(q[:, 0])
            i = int(np.argmax(viol))
            if viol[i] > 1e-7:
                fail(f"inside:{method}:space-group:{P.name}", f"space group {n}: rotation outside the fundamental zone of its proper point "
                     f"group {P.name}: a symmetry-equivalent has a smaller angle (excess {viol[i]:.3g})", dict(rep, q=q[i].tolist()))
        ref = get_sample_fundamental(12.0, point_group=P, method=method).data.reshape(-1, 4)
        if ref.shape != q.shape or not np.allclose(ref, q, atol=1e-12):
            fail(f"space-group-entry:{method}:{P.name}", f"the sample for space group {n} ({q.shape[0]} rotations) differs from the sample for "
                 f"its proper point group {P.name} ({ref.shape[0]} rotations)", rep)

for method in METHODS:
    # 10 degrees: an EVEN number of steps (36), the only case in which the "quaternion" grid contains both q and -q
    # for rotations by 180 degrees (low-order groups keep them in the zone)
    for res in ORES + ([10.0] if method == "quaternion" else []):
        for name, G in PROPER11 + (EXTRA_SETTINGS if TIER != "quick" else []):
            if res == 10.0 and TIER == "quick" and name not in ("1", "2", "3"):
                continue
            rot = get_sample_fundamental(res, point_group=G, method=method)
            q = rot.data.reshape(-1, 4)
            g = G.data.reshape(-1, 4)
            st(f"oracle/fund/{method}")
            rep = {"call": f"get_sample_fundamental({res}, point_group={name}, method={method!r})"}
            if q.shape[0] == 0:
                fail(f"empty:{method}:{name}", "fundamental sample is empty", rep)
                continue
            # finite
            bad = ~np.all(np.isfinite(q), axis=1)
            if bad.any():
                fail(f"finite:{method}:{name}", f"{int(bad.sum())} of {len(q)} sampled rotations have NaN / inf components "
                     f"(first at index {int(np.argmax(bad))})", rep)
                q = q[~bad]
                if q.shape[0] == 0:
                    continue
            # unit
            if np.abs(np.linalg.norm(q, axis=1) - 1).max() > 1e-9:
                fail(f"unit:{method}:{name}", "sampled rotation is not a unit quaternion", rep)
            # inside: Voronoi cell of the identity among the group elements
            viol = np.abs(q @ g.T).max(1) - np.abs(q[:, 0])
            i = int(np.argmax(viol))
            if viol[i] > 1e-7:
                fail(f"inside:{method}:{name}", f"rotation outside the fundamental zone of {name}: "
                     f"a symmetry-equivalent has a smaller angle (excess {viol[i]:.3g})", dict(rep, q=q[i].tolist()))
            # duplicates
            tree = cKDTree(np.vstack([q, -q]))
            d, _ = tree.query(q, k=2)
            i = int(np.argmin(d[:, 1]))
            if chord2angle(d[i, 1]) < 1e-4:
                fail(f"dup:{method}:{name}", "two returned rotations coincide", dict(rep, q=q[i].tolist()))
            # covering
            worst = {}
            for stratum, Pq in probes:
                best = np.full(len(Pq), 10.0)
                arg = np.zeros(len(Pq), int)
                for gi, ge in enumerate(g):
                    dd, _ = tree.query(qmul(Pq, ge[None, :]))
                    upd = dd < best
                    best[upd] = dd[upd]
                    arg[upd] = gi
                ang = chord2angle(best)
                i = int(np.argmax(ang))
                if method == "haar_euler":
                    # separate the probes whose nearest equivalent lies in the last cos(beta)
                    # interval [-1, -1 + 2/half] (before the repair of _euler_angles_haar_measure the
                    # grid had no row Phi = pi at its end): they keep their own signature, so a
                    # regression of that repair is reported as such
                    pe = qmul(Pq, g[arg])
                    Phi = 2 * np.arctan2(np.hypot(pe[:, 1], pe[:, 2]), np.hypot(pe[:, 0], pe[:, 3]))
                    n_steps = SO3._resolution_to_num_steps(res, even_only=True)
                    hole = Phi > math.acos(-1 + 2 / (n_steps // 2))
                    if hole.any():
                        i = int(np.argmax(np.where(hole, ang, -1)))
                        worst["Phi-pi-hole/" + stratum] = (ang[i], Pq[i])
                        key = f"cover/{method}/Phi-pi-hole/res={res}"
                        measured[key] = max(measured.get(key, 0), float(ang[i] / so3_cell(method, res)))
                    ang = np.where(hole, -1, ang)
                i = int(np.argmax(ang))
                worst[stratum] = (ang[i], Pq[i])
                key = f"cover/{method}/{stratum}/res={res}"
                measured[key] = max(measured.get(key, 0), float(ang[i] / so3_cell(method, res)))
            for stratum, (a, p) in worst.items():
                bound = COVER_C[method] * so3_cell(method, res)
                how = f"{COVER_C[method]} x the grid's nominal cell {so3_cell(method, res):.2f} deg"
                if method == "quaternion" and stratum.endswith("-sheet") and name == "1":
                    # point group 1 keeps the whole grid, and on a sheet only u_2 resp. u_3 varies: half a
                    # step 360/n <= res of that circle of quaternions is a rotation distance of at most res
                    bound = SHEET_C * res
                    how = f"{SHEET_C} x the resolution (the sheet {stratum[:4]} is a row of the grid)"
                    measured[f"cover/{method}/{stratum}/res={res}/C1-vs-res"] = float(a / res)
                if a > bound:
                    sig = f"cover:{method}:{name}"
                    if stratum.startswith("Phi-pi-hole"):
                        sig = f"cover:haar_euler:Phi-pi-hole:{name}"
                    fail(sig, f"orientation (stratum {stratum}) is {a:.2f} deg from the nearest grid point or "
                         f"symmetry-equivalent: more than {how} at resolution {res}", dict(rep, probe=p.tolist()))

# ---- the cubochoric outer layer (rotations by pi) must be sampled, also for the N with
# N * (L / N) > L in floating point (65, 130, 260)
L = 0.5 * np.pi ** (2 / 3)
for N in ([65] if TIER == "quick" else [65, 130]) + [10, 33, 64, 66]:
    if N > 70 and TIER == "quick":
        continue
    n = cubochoric_sampling(semi_edge_steps=N).size
    st("oracle/cubochoric-size")
    if n != (2 * N) ** 3:
        fail(f"cubochoric:outer-layer-dropped:N={N}", f"cubochoric_sampling(semi_edge_steps={N}) returns {n} rotations "
             f"instead of (2N)^3 = {(2 * N) ** 3}: the layer i = N (all rotations by 180 deg) is discarded because "
             f"N * (L / N) > L in floating point", {"call": f"cubochoric_sampling(semi_edge_steps={N})"})

# ---- local samples
for method in METHODS:
    for res, gw in [(8.0, 20.0), (10.0, 35.0), (6.0, 15.0)]:
        for with_center in (False, True):
            center = Rotation(randq(1)) if with_center else None
            rot = get_sample_local(res, center=center, grid_width=gw, method=method)
            st(f"oracle/local/{method}")
            q = rot.data.reshape(-1, 4)
            rep = {"call": f"get_sample_local({res}, center={None if center is None else center.data.tolist()}, "
                           f"grid_width={gw}, method={method!r})"}
            if q.shape[0] == 0:
                continue
            rel = q if center is None else qmul(qconj(center.data.reshape(1, 4)), q)
            ang = np.degrees(2 * np.arccos(np.clip(np.abs(rel[:, 0]), 0, 1)))
            i = int(np.argmax(ang))
            if ang[i] > gw + 1e-6:
                fail(f"local:angle:{method}", f"local sample {ang[i]:.3f} deg from its centre, grid_width {gw}",
                     dict(rep, q=q[i].tolist()))
            if q.shape[0] > 1:
                tree = cKDTree(np.vstack([q, -q]))
                d, _ = tree.query(q, k=2)
                if chord2angle(d[:, 1].min()) < 1e-4:
                    fail(f"local:dup:{method}", "two returned local rotations coincide", rep)


# ---- S2 meshes
def s2_probes(n):
    v = NPR.normal(size=(n, 3))
    out = [("uniform", v / np.linalg.norm(v, axis=1)[:, None])]
    # poles and polar caps
    t = NPR.uniform(0, 0.15, n // 4)
    p = NPR.uniform(0, 2 * np.pi, n // 4)
    cap = np.column_stack([np.sin(t) * np.cos(p), np.sin(t) * np.sin(p), np.cos(t)])
    out.append(("polar-caps", np.vstack([cap, -cap, [[0, 0, 1.0], [0, 0, -1.0]]])))
    # cube edges and corners, equator (hexagonal rim)
    e = NPR.uniform(-1, 1, size=(n // 4, 3))
    e[:, 0] = NPR.choice([-1, 1], n // 4)
    e[:, 1] = NPR.choice([-1, 1], n // 4) * (1 - NPR.uniform(0, 0.05, n // 4))
    e = e[:, NPR.permutation(3)]
    out.append(("cube-edges", e / np.linalg.norm(e, axis=1)[:, None]))
    p = NPR.uniform(0, 2 * np.pi, n // 4)
    z = NPR.uniform(-0.05, 0.05, n // 4)
    eq = np.column_stack([np.cos(p), np.sin(p), z])
    out.append(("equator", eq / np.linalg.norm(eq, axis=1)[:, None]))
    return out


def s2_cell(m, res):
    """nominal cell of an S2 mesh: the resolution, except for the equal-area mesh whose polar
    rows are uniform in cos(polar) (first row at acos(1 - 1/steps), documented: the
    resolution is that of the azimuth only)"""
    if m == "equal_area":
        steps = int(np.ceil(90 / res))
        return max(res, math.degrees(math.acos(1 - 1 / steps)))
    return res


# measured on the unchanged tree (resolutions 15 ... 1): uv 0.704 (theorem: 1/sqrt 2), equal_area 0.56,
# normalized 0.67, spherified edge 0.66, spherified corner 0.55, icosahedral 0.57, hexagonal 0.55
S2_C = {"uv": 0.75, "equal_area": 0.75, "normalized_cube": 0.8, "spherified_cube_edge": 0.8,
        "spherified_cube_corner": 0.7, "icosahedral": 0.7, "hexagonal": 0.7}
sprobes = s2_probes(20000 if TIER == "quick" else 80000)
for m in S2M:
    for res in ([10.0, 4.0] if TIER == "quick" else [15.0, 10.0, 4.0, 2.0, 1.0]):
        v = sample_S2(res, method=m).data.reshape(-1, 3)
        st(f"oracle/s2/{m}")
        rep = {"call": f"sample_S2({res}, method={m!r})"}
        if np.abs(np.linalg.norm(v, axis=1) - 1).max() > 1e-12:
            fail(f"s2:unit:{m}", "S2 sample is not a unit vector", rep)
        tree = cKDTree(v)
        for stratum, Pv in sprobes:
            d, _ = tree.query(Pv)
            ang = np.degrees(2 * np.arcsin(np.clip(d / 2, 0, 1)))
            i = int(np.argmax(ang))
            key = f"s2cover/{m}/{stratum}/res={res}"
            measured[key] = max(measured.get(key, 0), float(ang[i] / s2_cell(m, res)))
            if ang[i] > S2_C[m] * s2_cell(m, res):
                fail(f"s2:cover:{m}", f"direction (stratum {stratum}) is {ang[i]:.3f} deg from the nearest mesh point: "
                     f"more than {S2_C[m]} x the nominal cell {s2_cell(m, res):.2f} deg at resolution {res}",
                     dict(rep, probe=Pv[i].tolist()))

# ---- reduced fundamental sample
for G in S._groups:
    for res in ([6.0] if TIER == "quick" else [6.0, 3.0]):
        rot = get_sample_reduced_fundamental(res, point_group=G)
        st("oracle/reduced")
        q = rot.data.reshape(-1, 4)
        rep = {"call": f"get_sample_reduced_fundamental({res}, point_group={G.name})"}
        if q.shape[0] == 0:
            fail(f"reduced:empty:{G.name}", "reduced fundamental sample is empty", rep)
            continue
        vz = (rot * Vector3d.zvector()).data.reshape(-1, 3)
        nrm = G.fundamental_sector.data.reshape(-1, 3)
        m = DEFAULT[G.system]
        mesh = sample_S2(res, method=m).data.reshape(-1, 3)
        keep = np.all(mesh @ nrm.T > -1e-9, axis=1) if len(nrm) else np.ones(len(mesh), bool)
        ref = mesh[keep]
        if ref.shape != vz.shape or np.abs(ref - vz).max() > 1e-9:
            err = float("nan") if ref.shape != vz.shape else float(np.abs(ref - vz).max())
            fail(f"reduced:exact:{G.name}", f"R * z differs from the sector's mesh directions (max err {err:.3g})", rep)
        if len(nrm) and (vz @ nrm.T).min() < -1e-8:
            fail(f"reduced:inside:{G.name}", "R * z lies outside the fundamental sector", rep)
        if np.abs(q[:, 0] * q[:, 2] - q[:, 1] * q[:, 3]).max() > 1e-9:
            fail(f"reduced:phi1:{G.name}", "first Euler angle of a reduced sample is not 0", rep)
        # covering of the sector
        Pv = sprobes[0][1]
        inside = np.all(Pv @ nrm.T > 0, axis=1) if len(nrm) else np.ones(len(Pv), bool)
        if inside.any():
            d, _ = cKDTree(vz).query(Pv[inside])
            ang = np.degrees(2 * np.arcsin(np.clip(d / 2, 0, 1)))
            key = f"reduced-cover/{m}"
            measured[key] = max(measured.get(key, 0), float(ang.max() / res))
            if ang.max() > 1.0 * res:
                fail(f"reduced:cover:{G.name}", f"sector direction {ang.max():.3f} deg (> 1.0 x {res}) from the nearest "
                     f"R * z", dict(rep, probe=Pv[inside][int(np.argmax(ang))].tolist()))


# ================================================================ oracle, second part: secondary entry points,
# keyword paths and parameter classes that the strata above never reach (coverage audit)
from orix.sampling import (sample_S2_cube_mesh, sample_S2_equal_area_mesh, sample_S2_hexagonal_mesh,  # noqa: E402
                           sample_S2_icosahedral_mesh, sample_S2_uv_mesh, uniform_SO3_sample)

E4 = np.array([[1.0, 0, 0, 0]])


def so3_sample_checks(q, g, method, cell, sig, rep, dup=True, inside=True, cover=True, mkey=None):
    """the clauses of the main loop (unit, inside the Voronoi cell of the identity among the rotations g, no two equal
    rotations, covering radius of the stratified probes <= COVER_C[method] x cell) for ONE sample q (n x 4);
    `sig(clause)` gives the signature"""
    if q.shape[0] == 0:
        fail(sig("empty"), "the sample is empty", rep)
        return
    if np.abs(np.linalg.norm(q, axis=1) - 1).max() > 1e-9:
        fail(sig("unit"), "sampled rotation is not a unit quaternion", rep)
    if inside:
        viol = np.abs(q @ g.T).max(1) - np.abs(q[:, 0])
        i = int(np.argmax(viol))
        if viol[i] > 1e-7:
            fail(sig("inside"), f"rotation outside the fundamental zone: a symmetry-equivalent has a smaller angle "
                 f"(excess {viol[i]:.3g})", dict(rep, q=q[i].tolist()))
    tree = cKDTree(np.vstack([q, -q]))
    if dup and q.shape[0] > 1:
        d, _ = tree.query(q, k=2)
        i = int(np.argmin(d[:, 1]))
        if chord2angle(d[i, 1]) < 1e-4:
            npairs = int(np.sum(chord2angle(d[:, 1]) < 1e-4)) // 2
            fail(sig("dup"), f"two returned rotations coincide ({npairs} such pair(s) among {q.shape[0]} rotations)",
                 dict(rep, q=q[i].tolist(), pairs=npairs))
    if not cover:
        return
    bound = COVER_C[method] * cell
    for stratum, Pq in probes:
        best = np.full(len(Pq), 10.0)
        for ge in g:
            dd, _ = tree.query(qmul(Pq, ge[None, :]))
            best = np.minimum(best, dd)
        ang = chord2angle(best)
        i = int(np.argmax(ang))
        if mkey:
            measured[mkey] = max(measured.get(mkey, 0), float(ang[i] / cell))
        if ang[i] > bound:
            fail(sig("cover"), f"orientation (stratum {stratum}) is {ang[i]:.2f} deg from the nearest grid point or "
                 f"symmetry-equivalent: more than {COVER_C[method]} x the grid's nominal cell {cell:.2f} deg",
                 dict(rep, probe=Pq[i].tolist()))
            break


def same_rotation_set(a, b, tol=1e-7):
    """every row of a equals some row of +-b and conversely (sets of rotations, multiplicities ignored)"""
    if a.shape[0] == 0 or b.shape[0] == 0:
        return a.shape[0] == b.shape[0]
    da, _ = cKDTree(np.vstack([b, -b])).query(a)
    db, _ = cKDTree(np.vstack([a, -a])).query(b)
    return bool(da.max() < tol and db.max() < tol)


def cubo_res_of(N):
    """the resolution whose semi-edge step count is N (inverse of Eq. (9) of Singh & De Graef)"""
    return 131.97049 / N + 0.03732


# ---- (A) uniform_SO3_sample, the public SO(3) entry, with unique = True (its default; get_sample_fundamental always passes
# unique=False, so the `if unique:` branches are reached from here only), unique = False, method omitted, and the
# semi_edge_steps keyword: unit, no duplicates (unique != False), covers SO(3), and is the same SET of rotations as the
# fundamental sample of point group 1 (whose zone is all of SO(3))
for method in METHODS:
    for res in ([12.0, 9.0] if TIER == "quick" else [12.0, 9.0, 7.0, 5.0]):
        ref = get_sample_fundamental(res, point_group=S.C1, method=method).data.reshape(-1, 4)
        for uq in ("default", True, False):
            kw = {} if uq == "default" else {"unique": uq}
            rot = uniform_SO3_sample(res, method=method, **kw)
            st(f"oracle/uniform-so3/{method}")
            rep = {"call": f"uniform_SO3_sample({res}, method={method!r}" + "".join(f", {k}={v}" for k, v in kw.items()) + ")"}
            q = rot.data.reshape(-1, 4)
            if rot.ndim != 1:
                fail(f"uniform-so3:shape:{method}", f"sample has shape {rot.shape}, not 1-D", rep)
            so3_sample_checks(q, E4, method, so3_cell(method, res), lambda c, m=method, u=uq: f"uniform-so3:{c}:{m}" + ("" if c == "dup" else f":unique={u}"),
                              rep, dup=(uq is not False or method == "cubochoric"), inside=False,
                              mkey=f"cover/uniform-so3/{method}/res={res}")
            if not same_rotation_set(q, ref):
                fail(f"uniform-so3:vs-fundamental:{method}:unique={uq}", f"the set of rotations ({q.shape[0]} rows) differs from "
                     f"get_sample_fundamental({res}, point_group=C1, method={method!r}) ({ref.shape[0]} rows)", rep)
            if uq is True:
                d0 = uniform_SO3_sample(res, method=method).data.reshape(-1, 4)
                if d0.shape != q.shape or not np.array_equal(d0, q):
                    fail(f"uniform-so3:default-unique:{method}", "unique omitted differs from unique=True", rep)
    st("oracle/uniform-so3/keywords")
    if method == "cubochoric":
        a = uniform_SO3_sample(9.0).data
        b = uniform_SO3_sample(9.0, method="cubochoric").data
        if a.shape != b.shape or not np.array_equal(a, b):
            fail("uniform-so3:default-method", "uniform_SO3_sample(9.0) differs from method='cubochoric'",
                 {"call": "uniform_SO3_sample(9.0)"})
        for N in (6, 9, 14):
            a = uniform_SO3_sample(77.0, semi_edge_steps=N).data
            b = cubochoric_sampling(semi_edge_steps=N).data
            st("oracle/uniform-so3/keywords")
            if a.shape != b.shape or not np.array_equal(a, b):
                fail("uniform-so3:semi_edge_steps", f"uniform_SO3_sample(77.0, semi_edge_steps={N}) is not the cubochoric grid "
                     f"with N = {N} ({a.shape[0]} rows instead of {b.shape[0]})",
                     {"call": f"uniform_SO3_sample(77.0, semi_edge_steps={N})"})

# ---- (B) get_sample_fundamental at further resolutions (cubochoric N even: 12, 14; the main loop has N = 11, 17 only;
# three-uniform n = 24, 33, 38, 52; Haar n = 24, 34, 38, 52) and, in the quick tier too, for the other settings 211, 121,
# 321, 312 of the proper groups.  Cycled: every group meets every method, the resolution rotates with (group, method)
XRES = [15.0, 11.0, 9.5, 7.0]
xi = 0
for gi, (name, G) in enumerate(PROPER11 + EXTRA_SETTINGS):
    for mi, method in enumerate(METHODS):
        if TIER == "quick" and gi < len(PROPER11) and (gi + mi) % 3 != 0:
            continue
        res = XRES[(gi + 2 * mi) % 4]
        # the forms of the resolution argument cycle too: float, python int, numpy float32 / int64 (equal values)
        form = xi % 4
        xi += 1
        if form == 1 and res == int(res):
            arg, argtxt = int(res), str(int(res))
        elif form == 2 and res == int(res):
            arg, argtxt = np.int64(res), f"np.int64({int(res)})"
        elif form == 3:
            arg, argtxt = np.float32(res), f"np.float32({res})"
        else:
            arg, argtxt = res, str(res)
        rot = get_sample_fundamental(arg, point_group=G, method=method)
        st(f"oracle/fund-more-resolutions/{method}")
        rep = {"call": f"get_sample_fundamental({argtxt}, point_group={name}, method={method!r})"}
        so3_sample_checks(rot.data.reshape(-1, 4), G.data.reshape(-1, 4), method, so3_cell(method, res),
                          lambda c, m=method, nm=name: f"{c}:{m}:{nm}", rep, mkey=f"cover/more-resolutions/{method}/res={res}")

# ---- (C) keyword / argument paths of get_sample_fundamental: method omitted (cubochoric), semi_edge_steps= forwarded to
# the cubochoric grid (the resolution argument is then irrelevant), both point_group and space_group given (the point
# group is used), positional arguments; each against the primary call
CF_GROUPS = [PROPER11[i] for i in (1, 4, 8, 10)]      # 2, 422, 622, 432
for k, (name, G) in enumerate(CF_GROUPS):
    st("oracle/fund-call-forms", 4)
    base = get_sample_fundamental(15.0, point_group=G, method="cubochoric").data
    a = get_sample_fundamental(15.0, point_group=G).data
    if a.shape != base.shape or not np.array_equal(a, base):
        fail(f"fund-call-form:default-method:{name}", "method omitted differs from method='cubochoric'",
             {"call": f"get_sample_fundamental(15.0, point_group={name})"})
    a = get_sample_fundamental(15.0, G, None, "cubochoric").data
    if a.shape != base.shape or not np.array_equal(a, base):
        fail(f"fund-call-form:positional:{name}", "positional arguments differ from keywords",
             {"call": f"get_sample_fundamental(15.0, {name}, None, 'cubochoric')"})
    N = [9, 12, 6, 14][k]
    a = get_sample_fundamental([2.0, 33.0, 0.5, 15.0][k], point_group=G, semi_edge_steps=N)
    rep = {"call": f"get_sample_fundamental({[2.0, 33.0, 0.5, 15.0][k]}, point_group={name}, semi_edge_steps={N})"}
    b = get_sample_fundamental(cubo_res_of(N), point_group=G, method="cubochoric").data
    if a.data.shape != b.shape or not np.array_equal(a.data, b):
        fail(f"fund-call-form:semi_edge_steps:{name}", f"semi_edge_steps={N} gives {a.size} rotations, the resolution "
             f"{cubo_res_of(N):.3f} of that step count {b.shape[0]}", rep)
    so3_sample_checks(a.data.reshape(-1, 4), G.data.reshape(-1, 4), "cubochoric", cubo_res_of(N),
                      lambda c, nm=name: f"{c}:cubochoric:semi_edge_steps:{nm}", rep, mkey="cover/semi_edge_steps")
    sg = [1, 75, 16, 195][k]     # a space group of ANOTHER point group: point_group wins
    m = METHODS[k % 3]
    a = get_sample_fundamental(15.0, point_group=G, space_group=sg, method=m).data
    b = get_sample_fundamental(15.0, point_group=G, method=m).data
    if a.shape != b.shape or not np.array_equal(a, b):
        fail(f"fund-call-form:point-and-space-group:{m}", f"with point_group={name} and space_group={sg} the sample is not "
             f"that of the point group", {"call": f"get_sample_fundamental(15.0, point_group={name}, space_group={sg}, method={m!r})"})

# ---- (D) a point group with improper operations (the docstring's own example passes Oh): the zone of orientations is that
# of its rotations, i.e. of the proper subgroup -- inside that zone, no duplicates, and the same sample
IMPROPER = [G for G in S._groups if not G.is_proper]
for i, G in enumerate(IMPROPER):
    method = METHODS[i % 3]
    Pp = G.proper_subgroup
    rot = get_sample_fundamental(15.0, point_group=G, method=method)
    st(f"oracle/fund-improper-group/{method}")
    rep = {"call": f"get_sample_fundamental(15.0, point_group={G.name}, method={method!r})", "proper_subgroup": Pp.name}
    g = G.data.reshape(-1, 4)[~np.asarray(G.improper).ravel()]
    so3_sample_checks(rot.data.reshape(-1, 4), g, method, so3_cell(method, 15.0),
                      lambda c, m=method, nm=G.name: f"{c}:{m}:improper-group:{nm}", rep, cover=(i % 4 == 0),
                      mkey="cover/improper-group")
    ref = get_sample_fundamental(15.0, point_group=Pp, method=method).data
    if ref.shape != rot.data.shape or not np.allclose(ref, rot.data, atol=1e-12):
        fail(f"improper-group-entry:{method}:{G.name}", f"the sample for {G.name} ({rot.size} rotations) differs from the "
             f"sample for its proper subgroup {Pp.name} ({ref.shape[0]} rotations)", rep)

# ---- (E) get_sample_local: wide widths (the main loop stops at 35 deg), width = resolution, integer arguments, method
# omitted, semi_edge_steps=, a centre with negative scalar part, and "centre^-1 * sample = the sample without centre"
LOC2 = [(15.0, 90.0), (12.0, 170.0), (20.0, 180.0), (15.0, 250.0), (10.0, 10.0), (8, 20), (9.0, 60.0)]
for k, (res, gw) in enumerate(LOC2):
    for mi, method in enumerate(METHODS):
        cq = randq(1)
        if ((k + mi) % 2 == 1) == (cq[0, 0] > 0):
            cq = -cq      # the scalar part of the centre alternates in sign
        center = Rotation(cq)
        rot = get_sample_local(res, center=center, grid_width=gw, method=method)
        plain = get_sample_local(res, grid_width=gw, method=method)
        st(f"oracle/local-wide/{method}")
        rep = {"call": f"get_sample_local({res}, center={cq[0].tolist()}, grid_width={gw}, method={method!r})"}
        q = rot.data.reshape(-1, 4)
        p0 = plain.data.reshape(-1, 4)
        if q.shape[0] == 0:
            if p0.shape[0]:
                fail(f"local:centre-drops:{method}", "empty with a centre, non-empty without", rep)
            continue
        rel = qmul(qconj(cq), q)
        for what, r in (("with centre", rel), ("without centre", p0)):
            ang = np.degrees(2 * np.arccos(np.clip(np.abs(r[:, 0]), 0, 1)))
            i = int(np.argmax(ang))
            if ang[i] > gw + 1e-6:
                fail(f"local:angle:{method}", f"local sample ({what}) {ang[i]:.3f} deg from its centre, grid_width {gw}",
                     dict(rep, q=(q if r is rel else p0)[i].tolist()))
        if rel.shape != p0.shape or np.abs(np.abs(np.sum(rel * p0, axis=1)) - 1).max() > 1e-9:
            fail(f"local:centre-composition:{method}", f"centre^-1 * (sample about the centre) is not the sample about the "
                 f"identity, row by row ({rel.shape[0]} / {p0.shape[0]} rows)", rep)
        if q.shape[0] > 1:
            tree = cKDTree(np.vstack([q, -q]))
            d, _ = tree.query(q, k=2)
            if chord2angle(d[:, 1].min()) < 1e-4:
                fail(f"local:dup:{method}", "two returned local rotations coincide", rep)
st("oracle/local-call-forms", 3)
a = get_sample_local(10.0, grid_width=40.0).data
b = get_sample_local(10.0, grid_width=40.0, method="cubochoric").data
if a.shape != b.shape or not np.array_equal(a, b):
    fail("local-call-form:default-method", "method omitted differs from method='cubochoric'",
         {"call": "get_sample_local(10.0, grid_width=40.0)"})
a = get_sample_local(55.0, grid_width=40.0, semi_edge_steps=13).data
if a.shape != b.shape or not np.array_equal(a, b):
    fail("local-call-form:semi_edge_steps", f"semi_edge_steps=13 (= resolution 10) gives {a.shape[0]} rotations, "
         f"resolution 10 gives {b.shape[0]}", {"call": "get_sample_local(55.0, grid_width=40.0, semi_edge_steps=13)"})
a = get_sample_local(10.0, None, 40.0, "cubochoric").data
if a.shape != b.shape or not np.array_equal(a, b):
    fail("local-call-form:positional", "positional arguments differ from keywords",
         {"call": "get_sample_local(10.0, None, 40.0, 'cubochoric')"})


# ---- (F) S2: keyword paths (hemisphere, offset, remove_pole_duplicates), the public per-method functions and their
# defaults, method omitted, coarse / non-integer / integer resolutions
def s2_cover_check(v, m, res, bound_c, sig, rep, want=None, mkey=None):
    """unit norm + covering radius of the probes (restricted by `want`) <= bound_c x s2_cell"""
    if v.shape[0] == 0:
        fail(sig + ":empty", "S2 sample is empty", rep)
        return
    if np.abs(np.linalg.norm(v, axis=1) - 1).max() > 1e-12:
        fail(sig + ":unit", "S2 sample is not a unit vector", rep)
    tree = cKDTree(v)
    for stratum, Pv in sprobes:
        if want is not None:
            Pv = Pv[want(Pv)]
            if not len(Pv):
                continue
        d, _ = tree.query(Pv)
        ang = np.degrees(2 * np.arcsin(np.clip(d / 2, 0, 1)))
        i = int(np.argmax(ang))
        if mkey:
            measured[mkey] = max(measured.get(mkey, 0), float(ang[i] / s2_cell(m, res)))
        if ang[i] > bound_c * s2_cell(m, res):
            fail(sig + ":cover", f"direction (stratum {stratum}) is {ang[i]:.3f} deg from the nearest mesh point: more than "
                 f"{bound_c:.2f} x the nominal cell {s2_cell(m, res):.2f} deg at resolution {res}", dict(rep, probe=Pv[i].tolist()))
            break


HEMI = {"upper": lambda Pv: Pv[:, 2] >= 0, "lower": lambda Pv: Pv[:, 2] <= 0, "both": None}
k = 0
for m in ("uv", "equal_area"):
    for res in [10.0, 7.3, 4.0]:
        for hemi in ("upper", "lower", "both", "UPPER"):
            offs = [None] if m == "equal_area" else [None, [0.5, 0.25, 0.9][k % 3]]
            k += 1
            for off in offs:
                kw = {"hemisphere": hemi}
                if off is not None:
                    kw["offset"] = off
                v = sample_S2(res, method=m, **kw).data.reshape(-1, 3)
                st(f"oracle/s2-keywords/{m}")
                rep = {"call": f"sample_S2({res}, method={m!r}, " + ", ".join(f"{a}={b!r}" for a, b in kw.items()) + ")"}
                h = hemi.lower()
                if h == "upper" and v[:, 2].min() < -1e-12 or h == "lower" and v[:, 2].max() > 1e-12:
                    fail(f"s2:hemisphere:{m}:{h}", f"a vector of the {h} hemisphere mesh lies in the other hemisphere", rep)
                # with an offset the polar rows are at (k + offset) steps: a pole is max(offset, 1 - offset) steps from
                # the nearest row; the rim of a hemisphere mesh too, and a rim direction can lie half an azimuth step
                # aside as well (measured: 0.90 / 0.98 of the resolution)
                c = S2_C[m]
                if off is not None:
                    o = max(off, 1 - off)
                    c = max(S2_C[m], (o if h == "both" else math.sqrt(o * o + 0.25)) + 0.03)
                s2_cover_check(v, m, res, c, f"s2:keywords:{m}:{h}" + (":offset" if off is not None else ""), rep,
                               want=HEMI[h], mkey=f"s2cover/keywords/{m}/{h}" + ("/offset" if off is not None else ""))
    for res in [10.0, 4.0]:
        full = sample_S2(res, method=m, remove_pole_duplicates=False)
        st(f"oracle/s2-keywords/{m}")
        rep = {"call": f"sample_S2({res}, method={m!r}, remove_pole_duplicates=False)"}
        v = full.data.reshape(-1, 3)
        ref = sample_S2(res, method=m).data.reshape(-1, 3)
        if full.ndim != 2:
            fail(f"s2:pole-duplicates:{m}", f"remove_pole_duplicates=False returns shape {full.shape}, not the 2-D grid", rep)
        d1, _ = cKDTree(ref).query(v)
        d2, _ = cKDTree(v).query(ref)
        if max(d1.max(), d2.max()) > 1e-9 or np.abs(np.linalg.norm(v, axis=1) - 1).max() > 1e-12:
            fail(f"s2:pole-duplicates:{m}", "the grid with pole duplicates is not the same set of unit vectors as the mesh "
                 "without them", rep)
        # the default mesh has each pole once
        for pole in (1.0, -1.0):
            n = int(np.sum(np.abs(ref[:, 2] - pole) < 1e-12))
            if n != 1:
                fail(f"s2:pole-duplicates:{m}", f"the mesh contains the pole z = {pole} {n} times", rep)

DIRECT = [("uv", lambda r: sample_S2_uv_mesh(r), "sample_S2_uv_mesh(r)"),
          ("equal_area", lambda r: sample_S2_equal_area_mesh(r), "sample_S2_equal_area_mesh(r)"),
          ("normalized_cube", lambda r: sample_S2_cube_mesh(r, "normalized"), "sample_S2_cube_mesh(r, 'normalized')"),
          ("normalized_cube", lambda r: sample_S2_cube_mesh(r, grid_type="Normalized"), "sample_S2_cube_mesh(r, grid_type='Normalized')"),
          ("spherified_cube_edge", lambda r: sample_S2_cube_mesh(r, grid_type="spherified_edge"), "sample_S2_cube_mesh(r, grid_type='spherified_edge')"),
          ("spherified_cube_corner", lambda r: sample_S2_cube_mesh(r, grid_type="spherified_corner"), "sample_S2_cube_mesh(r, grid_type='spherified_corner')"),
          ("spherified_cube_corner", lambda r: sample_S2_cube_mesh(r), "sample_S2_cube_mesh(r)"),
          ("icosahedral", lambda r: sample_S2_icosahedral_mesh(r), "sample_S2_icosahedral_mesh(r)"),
          ("hexagonal", lambda r: sample_S2_hexagonal_mesh(r), "sample_S2_hexagonal_mesh(r)"),
          ("spherified_cube_edge", lambda r: sample_S2(r), "sample_S2(r)"),
          ("uv", lambda r: sample_S2(r, "uv"), "sample_S2(r, 'uv')")]
for k, (m, fn, txt) in enumerate(DIRECT):
    res = [10.0, 7.3, 4.0][k % 3]
    a = fn(res).data
    b = sample_S2(res, method=m).data
    st("oracle/s2-direct-entry")
    if a.shape != b.shape or not np.array_equal(a, b):
        fail(f"s2:direct-entry:{m}", f"{txt} with r = {res} differs from sample_S2(r, method={m!r}) "
             f"({a.reshape(-1, 3).shape[0]} / {b.reshape(-1, 3).shape[0]} vectors)", {"call": txt.replace("(r", f"({res}")})

# coarse, non-integer and integer-typed resolutions (step counts: hexagonal n odd -> even and already even, cube grids
# with 1-3 steps, icosahedron n = 2, 3, 4); same constants S2_C (measured: at most 0.70, see s2cover/more-resolutions/*)
for mi, m in enumerate(S2M):
    for ri, res in enumerate([45.0, 30, 22.5, 17.0, 7.3, 3, 2.9]):
        if TIER == "quick" and ri >= 4 and (mi + ri) % 2:
            continue
        v = sample_S2(res, method=m).data.reshape(-1, 3)
        st(f"oracle/s2-more-resolutions/{m}")
        rep = {"call": f"sample_S2({res!r}, method={m!r})"}
        s2_cover_check(v, m, float(res), S2_C[m], f"s2:more-resolutions:{m}", rep,
                       mkey=f"s2cover/more-resolutions/{m}/res={res}")
        if isinstance(res, int):
            b = sample_S2(float(res), method=m).data.reshape(-1, 3)
            if b.shape != v.shape or not np.array_equal(b, v):
                fail(f"s2:int-resolution:{m}", f"integer resolution {res} gives a mesh different from {float(res)}", rep)


# ---- (G) reduced fundamental sample with an EXPLICIT S2 method (the block above uses the per-system default only), every
# method meeting every crystal system; point_group omitted; resolution omitted; R z computed here from the quaternion
def rz(q):
    a, b, c, d = q.T
    return np.stack([2 * (b * d + a * c), 2 * (c * d - a * b), a * a - b * b - c * c + d * d], 1)


def reduced_checks(rot, G, m, res, sig, rep, cover_c, mkey):
    q = rot.data.reshape(-1, 4)
    if q.shape[0] == 0:
        fail(sig("empty"), "reduced fundamental sample is empty", rep)
        return
    if rot.ndim != 1:
        fail(sig("shape"), f"reduced sample has shape {rot.shape}, not 1-D", rep)
    if np.abs(np.linalg.norm(q, axis=1) - 1).max() > 1e-9:
        fail(sig("unit"), "reduced sample is not a unit quaternion", rep)
    vz = rz(q)
    nrm = G.fundamental_sector.data.reshape(-1, 3)
    mesh = sample_S2(res, method=m).data.reshape(-1, 3)
    keep = np.all(mesh @ nrm.T > -1e-9, axis=1) if len(nrm) else np.ones(len(mesh), bool)
    ref = mesh[keep]
    if ref.shape != vz.shape or np.abs(ref - vz).max() > 1e-9:
        err = float("nan") if ref.shape != vz.shape else float(np.abs(ref - vz).max())
        fail(sig("exact"), f"R * z differs from the sector's mesh directions ({vz.shape[0]} / {ref.shape[0]} directions, "
             f"max err {err:.3g})", rep)
    if len(nrm) and (vz @ nrm.T).min() < -1e-8:
        fail(sig("inside"), "R * z lies outside the fundamental sector", rep)
    if np.abs(q[:, 0] * q[:, 2] - q[:, 1] * q[:, 3]).max() > 1e-9:
        fail(sig("phi1"), "first Euler angle of a reduced sample is not 0", rep)
    Pv = sprobes[0][1]
    inside = np.all(Pv @ nrm.T > 0, axis=1) if len(nrm) else np.ones(len(Pv), bool)
    if inside.any():
        d, _ = cKDTree(vz).query(Pv[inside])
        ang = np.degrees(2 * np.arcsin(np.clip(d / 2, 0, 1)))
        measured[mkey] = max(measured.get(mkey, 0), float(ang.max() / s2_cell(m, res)))
        # a direction of the sector within one covering radius of the S2 mesh (S2_C[m] x cell, checked for the whole
        # sphere above) may have its nearest mesh direction OUTSIDE the sector, which the reduced sample does not contain:
        # next to a sector face the bound is two covering radii (the exact clause above already ties R * z to the mesh)
        cover_c = max(cover_c, 2 * S2_C[m])
        if ang.max() > cover_c * s2_cell(m, res):
            fail(sig("cover"), f"sector direction {ang.max():.3f} deg (> {cover_c} x the nominal cell {s2_cell(m, res):.2f}) "
                 f"from the nearest R * z", dict(rep, probe=Pv[inside][int(np.argmax(ang))].tolist()))


for gi, G in enumerate(S._groups):
    for k in ((0, 3) if TIER == "quick" else range(7)):
        m = S2M[(gi + k) % 7]
        res = [6.0, 9.0][(gi + k) % 2]
        rot = get_sample_reduced_fundamental(res, method=m, point_group=G)
        st(f"oracle/reduced-method/{m}")
        reduced_checks(rot, G, m, res, lambda c, nm=G.name, mm=m: f"reduced:{c}:{nm}:method={mm}",
                       {"call": f"get_sample_reduced_fundamental({res}, method={m!r}, point_group={G.name})"}, 1.0,
                       f"reduced-cover/method={m}")
st("oracle/reduced-call-forms", 4)
rot = get_sample_reduced_fundamental(6.0)
reduced_checks(rot, S.C1, "icosahedral", 6.0, lambda c: f"reduced:{c}:point-group-omitted",
               {"call": "get_sample_reduced_fundamental(6.0)"}, 1.0, "reduced-cover/point-group-omitted")
if rot.size != sample_S2(6.0, method="icosahedral").size:
    fail("reduced:exact:point-group-omitted", "without a point group the reduced sample is not the whole icosahedral mesh",
         {"call": "get_sample_reduced_fundamental(6.0)"})
rot = get_sample_reduced_fundamental(9.0, "uv")
reduced_checks(rot, S.C1, "uv", 9.0, lambda c: f"reduced:{c}:point-group-omitted",
               {"call": "get_sample_reduced_fundamental(9.0, 'uv')"}, 1.0, "reduced-cover/point-group-omitted")
for G in (S.Oh, S.D6):
    a = get_sample_reduced_fundamental(point_group=G).data
    b = get_sample_reduced_fundamental(2, point_group=G).data
    c = get_sample_reduced_fundamental(2.0, None, G).data
    if a.shape != b.shape or not np.array_equal(a, b) or c.shape != b.shape or not np.array_equal(c, b):
        fail(f"reduced:default-resolution:{G.name}", "resolution omitted / positional arguments differ from resolution = 2",
             {"call": f"get_sample_reduced_fundamental(point_group={G.name})"})

emit({"cases": cases, "fails": fails, "strata": strata, "measured": measured})
