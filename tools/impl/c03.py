"""C03 implementation harness: dump every named point group, the derived
groups/queries and the point group of all 230 space groups from /repo."""
import numpy as np
from common import emit, payload
from diffpy.structure.spacegroups import GetSpaceGroup

from orix.crystal_map import Phase
from orix.quaternion import symmetry as S
from orix.quaternion.symmetry import get_point_group

P = payload()


def dump(g):
    return {"name": g.name, "q": np.asarray(g.data, float).reshape(-1, 4).tolist(),
            "imp": np.asarray(g.improper).reshape(-1).astype(int).tolist()}


groups = []
for g in S._groups:
    d = dump(g)
    d["order"] = int(g.order)
    d["laue"] = dump(g.laue)
    d["proper_subgroup"] = dump(g.proper_subgroup)
    d["laue_proper_subgroup"] = dump(g.laue_proper_subgroup)
    d["subgroups"] = [s.name for s in g.subgroups]
    d["proper_subgroups"] = [s.name for s in g.proper_subgroups]
    d["contains_inversion"] = bool(g.contains_inversion)
    d["is_proper"] = bool(g.is_proper)
    d["system"] = g.system
    groups.append(d)

extra = [dump(S.C2), dump(S.Cs)]        # aliases outside _groups
proper_groups = [g.name for g in S._proper_groups]

sgs = []
for n in range(1, 231):
    spg = GetSpaceGroup(n)
    Ws = []
    for op in spg.iter_symops():
        W = np.rint(np.asarray(op.R)).astype(int).reshape(-1).tolist()
        if W not in Ws:
            Ws.append(W)
    pg = get_point_group(n)
    rec = {"n": n, "pgn": spg.point_group_name, "short": spg.short_name, "W": Ws, "pg": dump(pg),
           "pg_proper": dump(get_point_group(n, proper=True)), "system": spg.crystal_system.lower()}
    try:
        ph = Phase(space_group=n)
        rec["phase_pg"] = ph.point_group.name
        rec["phase_pg_same"] = bool(np.allclose(ph.point_group.data, pg.data) and
                                    np.array_equal(ph.point_group.improper, pg.improper))
    except Exception as e:  # noqa
        rec["phase_pg"] = f"ERR {type(e).__name__}"
        rec["phase_pg_same"] = False
    sgs.append(rec)

# histories: one Phase object whose space group is re-assigned after its point group was read (a cached or
# stale point group would survive the assignment); folded into phase_pg_same of the number assigned last
import random  # noqa: E402

_rng = random.Random(P.get("seed", 0) if isinstance(P, dict) else 0)
order = list(range(1, 231))
_rng.shuffle(order)
order = order + list(range(1, 231)) + list(range(230, 0, -1))
ph = Phase(space_group=225)
_ = ph.point_group, repr(ph)
for n in order:
    rec = sgs[n - 1]
    try:
        ph.space_group = n
        got = ph.point_group
        want = get_point_group(n)
        same = bool(got.shape == want.shape and np.allclose(got.data, want.data) and np.array_equal(got.improper, want.improper))
        cp = ph.deepcopy()
        same = same and cp.point_group.name == want.name
    except Exception as e:  # noqa
        same = False
    if not same:
        rec["phase_pg_same"] = False
        rec["phase_pg"] = str(rec.get("phase_pg")) + " (history: space_group re-assigned on a used Phase)"

# histories 2: phases whose POINT GROUP was stored explicitly (constructor argument, setter, PhaseList(point_groups=...),
# constructor with a space group AND its matching point group) and that are then assigned a space group: the
# space-group setter "overwrites any point group set before", so the point group must be the one of the new space group
from orix.crystal_map import PhaseList  # noqa: E402
from orix.quaternion import symmetry as _S  # noqa: E402

_named = list(_S._groups)
for k, n in enumerate(order[:230]):
    rec = sgs[n - 1]
    X = _named[k % len(_named)]
    try:
        want = get_point_group(n)
        made = []
        p1 = Phase(point_group=X)
        p1.space_group = n
        made.append(p1)
        p2 = Phase(space_group=225)
        p2.point_group = X.name            # resets the space group (with a warning) and stores X
        p2.space_group = n
        made.append(p2)
        p3 = PhaseList(point_groups=[X, "m-3m"], names=["a", "b"])["a"]
        p3.space_group = n
        made.append(p3)
        m = 1 + (n * 7) % 230
        p4 = Phase(space_group=m, point_group=get_point_group(m))
        p4.space_group = n
        made.append(p4)
        same = all(bool(q.space_group.number == n and q.point_group.shape == want.shape
                        and np.allclose(q.point_group.data, want.data)
                        and np.array_equal(q.point_group.improper, want.improper)) for q in made)
    except Exception as e:  # noqa
        same = False
    if not same:
        rec["phase_pg_same"] = False
        rec["phase_pg"] = str(rec.get("phase_pg")) + f" (history: space group assigned to a Phase with a stored point group {X.name})"

emit({"groups": groups, "extra": extra, "proper_groups": proper_groups, "sgs": sgs})
