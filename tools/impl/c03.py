"""C03 implementation harness: dump every named point group, the derived
groups/queries and the point group of all 230 space groups from /repo."""
import numpy as np
from common import emit, payload
from diffpy.structure.spacegroups import GetSpaceGroup

from orix.crystal_map import Phase
from orix.quaternion import symmetry as S
from orix.quaternion.symmetry import get_point_group

P = payload()


def dump(g):
    return {"name": g.name, "q": np.asarray(g.data, float).reshape(-1, 4).tolist(),
            "imp": np.asarray(g.improper).reshape(-1).astype(int).tolist()}


# ====================================================================== property oracle (mode "oracle")
# Run by tools/props/C03.py on every check (NOT cached with the Coq data): numpy brute-force checks of the property
# on entry points / histories the dump below does not reach.  Emits {"fails": [...], "strata": {...}}.
fails = []
strata = {}


def st(k, n=1):
    strata[k] = strata.get(k, 0) + n


def fail(sig, what, rep):
    fails.append({"sig": sig, "what": what, "replay": rep})


def qmat(q, imp):
    """3x3 matrix of a unit quaternion by the textbook formula (independent of orix), negated when improper"""
    a, b, c, d = [float(x) for x in q]
    M = np.array([[a * a + b * b - c * c - d * d, 2 * (b * c - a * d), 2 * (b * d + a * c)],
                  [2 * (b * c + a * d), a * a - b * b + c * c - d * d, 2 * (c * d - a * b)],
                  [2 * (b * d - a * c), 2 * (c * d + a * b), a * a - b * b - c * c + d * d]])
    return -M if imp else M


def mats(g):
    """(n, 3, 3) array of the operations of a Symmetry"""
    return np.array([qmat(q, i) for q, i in zip(np.asarray(g.data, float).reshape(-1, 4), np.asarray(g.improper).reshape(-1))]
                    ).reshape(-1, 3, 3)


def _dist(Ms, Ns):
    Ms, Ns = np.asarray(Ms, float).reshape(-1, 3, 3), np.asarray(Ns, float).reshape(-1, 3, 3)
    return np.abs(Ms[:, None] - Ns[None]).max(axis=(2, 3))


def subset(Ms, Ns, tol=1e-7):
    Ms, Ns = np.asarray(Ms, float).reshape(-1, 3, 3), np.asarray(Ns, float).reshape(-1, 3, 3)
    if len(Ms) == 0:
        return True
    if len(Ns) == 0:
        return False
    return bool(np.all(_dist(Ms, Ns).min(axis=1) < tol))


def mem(M, Ms, tol=1e-7):
    return subset(np.asarray(M, float).reshape(1, 3, 3), Ms, tol)


def nodup(Ms, tol=1e-7):
    Ms = np.asarray(Ms, float).reshape(-1, 3, 3)
    return len(Ms) == 0 or bool(np.all((_dist(Ms, Ms) < tol).sum(axis=1) == 1))


def seteq(Ms, Ns):
    return subset(Ms, Ns) and subset(Ns, Ms)


def dets(Ms):
    return np.linalg.det(np.asarray(Ms, float).reshape(-1, 3, 3))


def with_inversion(Ms):
    """the set extended by inversion (each operation once)"""
    Ms = np.asarray(Ms, float).reshape(-1, 3, 3)
    extra = [-A for A in Ms if not mem(-A, Ms)]
    return np.concatenate([Ms, np.array(extra).reshape(-1, 3, 3)])


def proper_part(Ms):
    Ms = np.asarray(Ms, float).reshape(-1, 3, 3)
    return Ms[dets(Ms) > 0]


def gjson(g):
    return {"name": getattr(g, "name", None), "q": np.asarray(g.data, float).reshape(-1, 4).round(9).tolist(),
            "improper": np.asarray(g.improper).reshape(-1).astype(int).tolist()}


ORDER = {"1": 1, "-1": 2, "211": 2, "121": 2, "112": 2, "2": 2, "m11": 2, "1m1": 2, "11m": 2, "m": 2, "2/m": 4,
         "222": 4, "mm2": 4, "mmm": 8, "4": 4, "-4": 4, "4/m": 8, "422": 8, "4mm": 8, "-42m": 8, "4/mmm": 16,
         "3": 3, "-3": 6, "321": 6, "312": 6, "32": 6, "3m": 6, "-3m": 12, "6": 6, "-6": 6, "6/m": 12, "622": 12,
         "6mm": 12, "-6m2": 12, "6/mmm": 24, "23": 12, "m-3": 24, "432": 24, "-43m": 24, "m-3m": 48}
I3 = np.eye(3)


def named_objects():
    """the 38 groups of _groups plus the module-level aliases 2 (C2) and m (Cs) that get_point_group hands out"""
    objs = list(S._groups)
    for x in (S.C2, S.Cs):
        if not any(x is y for y in objs):
            objs.append(x)
    return objs


def incl_names(Ms, proper_only=False):
    out = []
    for h in S._groups:
        Hs = mats(h)
        if subset(Hs, Ms) and (not proper_only or bool(np.all(dets(Hs) > 0))):
            out.append(h.name)
    return out


def check_plain(g, tag):
    """all clauses of the first sentence of the property for one named object, by numpy brute force"""
    nm = g.name
    rep = {"group": nm, "pass": tag, "how": "orix.quaternion.symmetry: the module-level group of that name"}
    Ms = mats(g)
    st("np-group")
    ok = (len(Ms) > 0 and nodup(Ms) and mem(I3, Ms) and subset(np.einsum("aij,bjk->abik", Ms, Ms), Ms)
          and subset(np.transpose(Ms, (0, 2, 1)), Ms) and bool(np.all(np.abs(np.abs(dets(Ms)) - 1) < 1e-9)))
    if not (ok and len(Ms) == int(g.order) == int(g.size) == ORDER.get(nm, -1)):
        fail(f"np-group:{nm}", f"named point group {nm} is not a finite group of the order its name denotes "
             f"(identity/closure/inverse/duplicates/order; {len(Ms)} operations, order={g.order})", dict(rep, got=gjson(g)))
    Lref = with_inversion(Ms)
    Pref = proper_part(Ms)
    st("np-laue")
    L = g.laue
    LM = mats(L)
    if not (seteq(LM, Lref) and nodup(LM)):
        fail(f"np-laue:{nm}", f"Laue group of {nm} is not the group extended by inversion", dict(rep, got=gjson(L)))
    st("np-proper-subgroup")
    Pg = g.proper_subgroup
    PM = mats(Pg)
    if not (seteq(PM, Pref) and nodup(PM) and not np.any(Pg.improper)):
        fail(f"np-proper-subgroup:{nm}", f"proper subgroup of {nm} is not exactly its proper operations", dict(rep, got=gjson(Pg)))
    st("np-laue-proper-subgroup")
    LP = g.laue_proper_subgroup
    LPM = mats(LP)
    if not (seteq(LPM, proper_part(Lref)) and nodup(LPM) and not np.any(LP.improper)):
        fail(f"np-laue-proper-subgroup:{nm}", f"proper subgroup of the Laue group of {nm} is not exactly the proper operations "
             "of the group extended by inversion", dict(rep, got=gjson(LP)))
    st("np-queries")
    if bool(g.contains_inversion) != mem(-I3, Ms):
        fail(f"np-contains-inversion:{nm}", f"contains_inversion of {nm} disagrees with membership of the inversion",
             dict(rep, got=bool(g.contains_inversion)))
    if bool(g.is_proper) != (len(Pref) == len(Ms)):
        fail(f"np-is-proper:{nm}", f"is_proper of {nm} disagrees with its operations", dict(rep, got=bool(g.is_proper)))
    got, want = [h.name for h in g.subgroups], incl_names(Ms)
    if got != want:
        fail(f"np-subgroups:{nm}", f"subgroups of {nm} disagree with set inclusion over the named groups", dict(rep, got=got, want=want))
    got, want = [h.name for h in g.proper_subgroups], incl_names(Ms, True)
    if got != want:
        fail(f"np-proper-subgroups:{nm}", f"proper_subgroups of {nm} disagree with set inclusion over the proper named groups",
             dict(rep, got=got, want=want))


def check_chain(g, tag):
    """queries asked of the DERIVED groups (Laue group, proper subgroup, Laue proper subgroup) of a named group: the
    derived objects carry class names ('2/m', '-3m', '32' ...) that other, differently oriented named groups also carry"""
    nm = g.name
    rep = {"group": nm, "pass": tag}
    Ms = mats(g)
    Lref = with_inversion(Ms)
    L = g.laue
    LM = mats(L)
    st("chain-laue")
    bad = []
    if not bool(L.contains_inversion):
        bad.append("laue.contains_inversion is False")
    if bool(L.is_proper):
        bad.append("laue.is_proper is True")
    if [h.name for h in L.subgroups] != incl_names(Lref):
        bad.append(f"laue.subgroups = {[h.name for h in L.subgroups]} but set inclusion gives {incl_names(Lref)}")
    if not seteq(mats(L.proper_subgroup), proper_part(Lref)):
        bad.append("laue.proper_subgroup is not the proper operations of the Laue group")
    if not seteq(mats(L.laue), Lref):
        bad.append("laue.laue differs from the Laue group")
    if not seteq(LM, Lref):
        bad.append("laue is not the group extended by inversion")
    if bad:
        fail(f"chain-laue:{nm}", f"queries on the Laue group of {nm} disagree with its operations: " + "; ".join(bad),
             dict(rep, laue=gjson(L), how=f"L = <group {nm}>.laue; L.contains_inversion / is_proper / subgroups / proper_subgroup / laue"))
    st("chain-proper")
    Pref = proper_part(Ms)
    Pg = g.proper_subgroup
    bad = []
    if not bool(Pg.is_proper):
        bad.append("proper_subgroup.is_proper is False")
    if bool(Pg.contains_inversion):
        bad.append("proper_subgroup.contains_inversion is True")
    if [h.name for h in Pg.subgroups] != incl_names(Pref):
        bad.append(f"proper_subgroup.subgroups = {[h.name for h in Pg.subgroups]} but set inclusion gives {incl_names(Pref)}")
    if not seteq(mats(Pg.laue), with_inversion(Pref)):
        bad.append("proper_subgroup.laue is not the proper subgroup extended by inversion")
    LP = g.laue_proper_subgroup
    if not (bool(LP.is_proper) and seteq(mats(LP.laue), Lref)):
        bad.append("laue_proper_subgroup is not proper or its Laue group is not the Laue group")
    if bad:
        fail(f"chain-proper:{nm}", f"queries on the proper subgroup / Laue proper subgroup of {nm} disagree with its operations: "
             + "; ".join(bad), dict(rep, proper_subgroup=gjson(Pg), how=f"P = <group {nm}>.proper_subgroup; P.is_proper / "
                                    "contains_inversion / subgroups / laue / proper_subgroup"))


LATTICE_MODES = ["ctor", "structure-setter", "rotated-base", "space-group-last", "cif"]


def rand_lattice(system, R):
    a, b, c = (round(R.uniform(2.0, 9.0), 3) for _ in range(3))
    if system == "triclinic":
        while True:
            al, be, ga = (round(R.uniform(65, 115), 2) for _ in range(3))
            ca, cb, cg = (np.cos(np.deg2rad(x)) for x in (al, be, ga))
            if 1 - ca * ca - cb * cb - cg * cg + 2 * ca * cb * cg > 0.2 and min(abs(al - 90), abs(be - 90), abs(ga - 90)) > 3:
                return a, b, c, al, be, ga
    if system == "monoclinic":            # diffpy's monoclinic space groups are in the unique-axis-b setting
        return a, b, c, 90, round(R.uniform(95, 125), 2), 90
    if system == "orthorhombic":
        return a, b, c, 90, 90, 90
    if system == "tetragonal":
        return a, a, c, 90, 90, 90
    if system in ("trigonal", "hexagonal"):   # diffpy's rhombohedral groups are in hexagonal axes
        return a, a, c, 90, 90, 120
    return a, a, a, 90, 90, 90


def rand_rotmat(R):
    from common import rand_unit_quat
    return qmat(rand_unit_quat(R), False)


def lattice_stratum(R, modes_per_group):
    """second sentence of the property on REAL lattices: the phase's frame is read from phase.structure.lattice.base
    (rows a, b, c in Cartesian coordinates) after the Phase realigned it; the rotational parts W of the space group's
    operations (diffpy) are carried into that frame, R = B^T W B^-T, and compared as a set with the point group"""
    import os
    from diffpy.structure import Atom, Lattice, Structure
    from orix.vector import Miller
    for n in range(1, 231):
        spg = GetSpaceGroup(n)
        system = spg.crystal_system.lower()
        Ws = []
        for op in spg.iter_symops():
            W = np.rint(np.asarray(op.R)).astype(int)
            if not any(np.array_equal(W, X) for X in Ws):
                Ws.append(W)
        for j in range(modes_per_group):
            mode = LATTICE_MODES[(n + j) % len(LATTICE_MODES)]
            abc = rand_lattice(system, R)
            rep = {"space_group": n, "mode": mode, "lattice_abcABG": list(abc)}
            st("lattice:" + mode)
            try:
                lat = Lattice(*abc)
                if mode == "ctor":
                    ph = Phase(space_group=n, structure=Structure(atoms=[Atom("Al", [0.1, 0.2, 0.3])], lattice=lat))
                elif mode == "structure-setter":
                    ph = Phase(space_group=n)
                    ph.structure = Structure(lattice=lat)
                elif mode == "rotated-base":      # the same lattice handed over in an arbitrary orientation
                    Q = rand_rotmat(R)
                    rep["base_rotation"] = Q.round(9).tolist()
                    ph = Phase(space_group=GetSpaceGroup(n), structure=Structure(lattice=Lattice(base=lat.base @ Q)))
                elif mode == "space-group-last":
                    ph = Phase(structure=Structure(lattice=lat), point_group="1")
                    ph.space_group = n
                else:
                    path = os.path.join(os.getcwd(), "c03_oracle.cif")
                    with open(path, "w") as f:
                        f.write("data_t\n_cell_length_a %r\n_cell_length_b %r\n_cell_length_c %r\n_cell_angle_alpha %r\n"
                                "_cell_angle_beta %r\n_cell_angle_gamma %r\n_symmetry_Int_Tables_number %d\nloop_\n"
                                "_atom_site_label\n_atom_site_type_symbol\n_atom_site_fract_x\n_atom_site_fract_y\n"
                                "_atom_site_fract_z\nAl1 Al 0.1 0.2 0.3\n" % (abc + (n,)))
                    ph = Phase.from_cif(path)
                    rep["cif"] = open(path).read()
                B = np.asarray(ph.structure.lattice.base, float)
                got_abc = ph.structure.lattice.abcABG()
                a_ax = Miller(uvw=[1, 0, 0], phase=ph).unit.data.reshape(3)
                cr_ax = Miller(hkl=[0, 0, 1], phase=ph).unit.data.reshape(3)
                pg = ph.point_group
                sgno = ph.space_group.number
            except Exception as e:  # noqa
                fail("lattice:exception:" + mode, f"building a phase of space group {n} with a lattice of its crystal system raised "
                     f"{type(e).__name__}: {e}", rep)
                continue
            rep["base"] = B.round(9).tolist()
            cstar = np.cross(B[0], B[1])
            frame_ok = (np.allclose(B[0] / np.linalg.norm(B[0]), [1, 0, 0], atol=1e-9)
                        and np.allclose(cstar / np.linalg.norm(cstar), [0, 0, 1], atol=1e-9)
                        and np.linalg.det(B) > 0 and np.allclose(got_abc, abc, atol=1e-7)
                        and np.allclose(a_ax, [1, 0, 0], atol=1e-9) and np.allclose(cr_ax, [0, 0, 1], atol=1e-9))
            if not frame_ok:
                fail("lattice:frame:" + mode, f"crystal frame of a phase of space group {n} is not a along e1 / c* along e3 "
                     "(right-handed, lattice parameters kept)", dict(rep, abcABG=list(map(float, got_abc)), a_axis=a_ax.tolist(),
                                                                      cr_axis=cr_ax.tolist()))
                continue
            if sgno != n:
                fail("lattice:space-group:" + mode, f"phase built for space group {n} reports space group {sgno}", rep)
                continue
            Bt = B.T
            Rs = [Bt @ W @ np.linalg.inv(Bt) for W in Ws]
            if not (pg is not None and seteq(mats(pg), Rs) and len(Rs) == pg.size):
                # same signature as the correspondence-side check of get_point_group(n): the 50 listed space groups are
                # the known finding, any other number is a violation
                fail(f"sg:{n}", f"point group assigned to a phase of space group {n} ({mode}) is not the set of rotational parts of "
                     "its symmetry operations in the phase's Cartesian crystal frame (real lattice)",
                     dict(rep, point_group=None if pg is None else gjson(pg)))


def same_group(a, b):
    return bool(a is not None and b is not None and a.shape == b.shape and np.allclose(a.data, b.data)
                and np.array_equal(a.improper, b.improper))


def phaselist_stratum(R):
    """secondary routes by which a phase gets / hands out its point group: PhaseList(space_groups=...) with numbers and
    SpaceGroup objects, PhaseList from a list / dict of phases, indexing by id / name / slice / tuple, add(), deepcopy(),
    CrystalMap.phases, CrystalMap[...].phases_in_data, CrystalMap.orientations.symmetry"""
    from orix.crystal_map import CrystalMap, PhaseList
    from orix.quaternion import Rotation
    nums = list(range(1, 231))
    R.shuffle(nums)
    gnames = [g.name for g in S._groups]      # "2" and "m" (aliases handed out for monoclinic space groups) are not among them
    for k in range(0, 230, 10):
        chunk = nums[k:k + 10]
        names = [f"p{n}" for n in chunk]
        rep = {"space_groups": chunk, "names": names}

        def cmp(route, seq, how, ns=None):
            st("phaselist:" + route)
            ns = chunk if ns is None else ns
            seq = list(seq)
            if len(seq) != len(ns):
                fail("phaselist:" + route, f"{how}: {len(seq)} point groups for {len(ns)} phases", dict(rep))
                return
            for n, got in zip(ns, seq):
                if not same_group(got, get_point_group(n)):
                    fail("phaselist:" + route, f"point group obtained by {how} for a phase of space group {n} differs from "
                         f"get_point_group({n})", dict(rep, n=n, got=None if got is None else gjson(got)))
                    break
        try:
            sgs_in = [n if i % 2 == 0 else GetSpaceGroup(n) for i, n in enumerate(chunk)]
            pl = PhaseList(space_groups=sgs_in, names=names)
            cmp("point_groups", pl.point_groups, "PhaseList(space_groups=[numbers and SpaceGroup objects]).point_groups")
            cmp("getitem-id", [pl[i].point_group for i in range(10)], "PhaseList(space_groups=...)[id].point_group")
            cmp("getitem-name", [pl[nm].point_group for nm in names], "PhaseList(space_groups=...)[name].point_group")
            sub = pl[2:]
            cmp("slice", sub.point_groups, "PhaseList(space_groups=...)[2:].point_groups", chunk[2:])
            tup = pl[tuple(names[::2])]
            st("phaselist:tuple")
            for i, p in tup:
                if not same_group(p.point_group, get_point_group(chunk[i])):
                    fail("phaselist:tuple", f"point group of phase id {i} of PhaseList[(names...)] differs from get_point_group({chunk[i]})",
                         dict(rep, n=chunk[i]))
            pl2 = PhaseList([Phase(nm, space_group=n) for nm, n in zip(names, chunk)])
            cmp("from-list", pl2.point_groups, "PhaseList([Phase(space_group=n), ...]).point_groups")
            pl3 = PhaseList({i + 3: Phase(nm, space_group=GetSpaceGroup(n)) for i, (nm, n) in enumerate(zip(names, chunk))})
            cmp("from-dict", pl3.point_groups, "PhaseList({id: Phase(space_group=SpaceGroup)}).point_groups")
            pl4 = PhaseList(space_groups=chunk[:3], names=names[:3])
            pl4.add([Phase(nm, space_group=n) for nm, n in zip(names[3:6], chunk[3:6])])
            pl4.add(PhaseList(space_groups=chunk[6:], names=names[6:]))
            if k == 0:
                _ = repr(pl4)
            cmp("add", pl4.point_groups, "PhaseList.add(list of phases / PhaseList) then .point_groups")
            cp = pl4.deepcopy()
            cmp("deepcopy", cp.point_groups, "PhaseList.deepcopy().point_groups")
            # space groups and the matching point groups (by name / by object) given together
            pl5 = PhaseList(space_groups=chunk, names=names,
                            point_groups=[get_point_group(n).name if i % 2 and get_point_group(n).name in gnames
                                          else get_point_group(n) for i, n in enumerate(chunk)])
            cmp("space-and-point-groups", pl5.point_groups, "PhaseList(space_groups=..., point_groups=<the matching ones>).point_groups")
            st("phaselist:space-and-point-groups-kept")
            if [s.number if s is not None else None for s in pl5.space_groups] != chunk:
                fail("phaselist:space-and-point-groups-kept", "PhaseList(space_groups=..., point_groups=<the matching ones>) lost a space group",
                     dict(rep, got=[s.number if s is not None else None for s in pl5.space_groups]))
            # crystal map
            pid = np.array([i % 10 for i in range(30)])
            rot = Rotation.random(30)
            xmap = CrystalMap(rotations=rot, phase_id=pid, x=np.arange(30) % 6, y=np.arange(30) // 6, phase_list=pl)
            cmp("crystalmap-phases", [xmap.phases[i].point_group for i in range(10)], "CrystalMap(phase_list=...).phases[id].point_group")
            cmp("crystalmap-orientations", [xmap[nm].orientations.symmetry for nm in names], "CrystalMap[name].orientations.symmetry")
            cmp("crystalmap-phases-in-data", [xmap[nm].phases_in_data[i].point_group for i, nm in enumerate(names)],
                "CrystalMap[name].phases_in_data[id].point_group")
            cm2 = xmap.deepcopy()
            cmp("crystalmap-deepcopy", [cm2.phases[nm].point_group for nm in names], "CrystalMap.deepcopy().phases[name].point_group")
        except Exception as e:  # noqa
            fail("phaselist:exception", f"a PhaseList / CrystalMap route raised {type(e).__name__}: {e}", rep)


def name_stratum():
    """a phase given the NAME of a point group (string, or integer for all-digit names; constructor, setter, PhaseList)
    must get the named group of that name"""
    from orix.crystal_map import PhaseList
    by_name = {}
    for g in S._groups:
        by_name.setdefault(g.name, []).append(g)
    st("names-distinct")
    if len(by_name) != len(S._groups) or len(S._groups) != 38:
        fail("names-distinct", "the named point groups do not carry 38 distinct names", {"names": [g.name for g in S._groups]})
    for k, g in enumerate(S._groups):
        nm = g.name
        vals = [nm] + ([int(nm)] if nm.isdigit() else [])
        for v in vals:
            route = ["ctor", "setter", "phaselist", "setter-over-space-group"][k % 4] if isinstance(v, str) else "int"
            st("phase-name:" + route)
            try:
                if route in ("ctor", "int"):
                    got = Phase(point_group=v).point_group
                elif route == "setter":
                    p = Phase(point_group=S._groups[(k + 5) % 38])
                    p.point_group = v
                    got = p.point_group
                elif route == "phaselist":
                    got = PhaseList(point_groups=[S._groups[(k + 7) % 38].name, v], names=["a", "b"])["b"].point_group
                else:
                    p = Phase(space_group=1 + (k * 6) % 230)
                    p.point_group = v
                    got = p.point_group
            except Exception as e:  # noqa
                got = None
            if not (same_group(got, g) and got.name == nm):
                fail(f"phase-name:{nm}", f"a phase given point group name {v!r} ({route}) does not get the named group {nm}",
                     {"value": v, "route": route, "got": None if got is None else gjson(got)})


def oracle():
    from common import rng
    R = rng(P.get("seed", 0))
    quick = P.get("tier", "quick") == "quick"
    objs = named_objects()
    snap = [(g, g.name, np.array(g.data, float).copy(), np.array(g.improper).copy(), g.shape) for g in objs]
    # histories: queries on the derived groups of the axis-setting variants BEFORE the named groups are queried, then the
    # named groups, then the derived groups again (a cache keyed by the class name would be filled by one and read by the other)
    first = ["312", "1m1", "121", "m11", "211", "-6m2", "mm2", "-42m", "321", "3m"]   # axis-setting variants first
    for g in sorted(reversed(objs), key=lambda x: first.index(x.name) if x.name in first else len(first)):
        check_chain(g, "derived-first")
    for g in objs:
        check_plain(g, "after-derived")
    for g in objs:
        check_chain(g, "derived-after-named")
    name_stratum()
    lattice_stratum(R, 2 if quick else len(LATTICE_MODES))
    phaselist_stratum(R)
    # history: none of the uses above may have changed a module-level group
    for g, nm, dat, imp, shp in snap:
        st("history-unchanged")
        if not (g.name == nm and g.shape == shp and np.array_equal(np.asarray(g.data, float), dat) and np.array_equal(np.asarray(g.improper), imp)):
            fail(f"history-mutated:{nm}", f"module-level point group {nm} was changed by queries / phase construction",
                 {"group": nm, "before": {"q": dat.reshape(-1, 4).tolist(), "improper": imp.reshape(-1).astype(int).tolist()},
                  "after": gjson(g)})
    emit({"fails": fails, "strata": strata})


if isinstance(P, dict) and P.get("mode") == "oracle":
    oracle()
    raise SystemExit(0)

# ====================================================================== dump for the Coq correspondence
groups = []
for g in S._groups:
    d = dump(g)
    d["order"] = int(g.order)
    d["laue"] = dump(g.laue)
    d["proper_subgroup"] = dump(g.proper_subgroup)
    d["laue_proper_subgroup"] = dump(g.laue_proper_subgroup)
    d["subgroups"] = [s.name for s in g.subgroups]
    d["proper_subgroups"] = [s.name for s in g.proper_subgroups]
    d["contains_inversion"] = bool(g.contains_inversion)
    d["is_proper"] = bool(g.is_proper)
    d["system"] = g.system
    groups.append(d)

extra = [dump(S.C2), dump(S.Cs)]        # aliases outside _groups
proper_groups = [g.name for g in S._proper_groups]

sgs = []
for n in range(1, 231):
    spg = GetSpaceGroup(n)
    Ws = []
    for op in spg.iter_symops():
        W = np.rint(np.asarray(op.R)).astype(int).reshape(-1).tolist()
        if W not in Ws:
            Ws.append(W)
    pg = get_point_group(n)
    rec = {"n": n, "pgn": spg.point_group_name, "short": spg.short_name, "W": Ws, "pg": dump(pg),
           "pg_proper": dump(get_point_group(n, proper=True)), "system": spg.crystal_system.lower()}
    try:
        ph = Phase(space_group=n)
        rec["phase_pg"] = ph.point_group.name
        rec["phase_pg_same"] = bool(np.allclose(ph.point_group.data, pg.data) and
                                    np.array_equal(ph.point_group.improper, pg.improper))
    except Exception as e:  # noqa
        rec["phase_pg"] = f"ERR {type(e).__name__}"
        rec["phase_pg_same"] = False
    sgs.append(rec)

# histories: one Phase object whose space group is re-assigned after its point group was read (a cached or
# stale point group would survive the assignment); folded into phase_pg_same of the number assigned last
import random  # noqa: E402

_rng = random.Random(P.get("seed", 0) if isinstance(P, dict) else 0)
order = list(range(1, 231))
_rng.shuffle(order)
order = order + list(range(1, 231)) + list(range(230, 0, -1))
ph = Phase(space_group=225)
_ = ph.point_group, repr(ph)
for n in order:
    rec = sgs[n - 1]
    try:
        ph.space_group = n
        got = ph.point_group
        want = get_point_group(n)
        same = bool(got.shape == want.shape and np.allclose(got.data, want.data) and np.array_equal(got.improper, want.improper))
        cp = ph.deepcopy()
        same = same and cp.point_group.name == want.name
    except Exception as e:  # noqa
        same = False
    if not same:
        rec["phase_pg_same"] = False
        rec["phase_pg"] = str(rec.get("phase_pg")) + " (history: space_group re-assigned on a used Phase)"

# histories 2: phases whose POINT GROUP was stored explicitly (constructor argument, setter, PhaseList(point_groups=...),
# constructor with a space group AND its matching point group) and that are then assigned a space group: the
# space-group setter "overwrites any point group set before", so the point group must be the one of the new space group
from orix.crystal_map import PhaseList  # noqa: E402
from orix.quaternion import symmetry as _S  # noqa: E402

_named = list(_S._groups)
for k, n in enumerate(order[:230]):
    rec = sgs[n - 1]
    X = _named[k % len(_named)]
    try:
        want = get_point_group(n)
        made = []
        p1 = Phase(point_group=X)
        p1.space_group = n
        made.append(p1)
        p2 = Phase(space_group=225)
        p2.point_group = X.name            # resets the space group (with a warning) and stores X
        p2.space_group = n
        made.append(p2)
        p3 = PhaseList(point_groups=[X, "m-3m"], names=["a", "b"])["a"]
        p3.space_group = n
        made.append(p3)
        m = 1 + (n * 7) % 230
        p4 = Phase(space_group=m, point_group=get_point_group(m))
        p4.space_group = n
        made.append(p4)
        same = all(bool(q.space_group.number == n and q.point_group.shape == want.shape
                        and np.allclose(q.point_group.data, want.data)
                        and np.array_equal(q.point_group.improper, want.improper)) for q in made)
    except Exception as e:  # noqa
        same = False
    if not same:
        rec["phase_pg_same"] = False
        rec["phase_pg"] = str(rec.get("phase_pg")) + f" (history: space group assigned to a Phase with a stored point group {X.name})"

emit({"groups": groups, "extra": extra, "proper_groups": proper_groups, "sgs": sgs})
