#!/bin/bash
# Multi-seed quick sweeps on isolated copies of /verif (build output included), all reading /repo itself:
# usage: tools/sweep_iso.sh <seed> [<seed> ...]   -> /tmp/ms/seed<N>.log
mkdir -p /tmp/ms
for sd in "$@"; do
  (
    d=/tmp/ms/seed$sd
    rm -rf $d; mkdir -p $d
    rsync -a --exclude .git --exclude 'build/numba' --exclude 'build/cases*' /verif/ $d/verif/
    cd $d/verif
    for p in $(python3 -c "import json;print(' '.join(c['property_id'] for c in json.load(open('MANIFEST.json'))['checks']))"); do
      s=$(date +%s)
      out=$(VERIF_SEED=$sd ./check $p --tier quick 2>&1); rc=$?
      e=$(( $(date +%s) - s ))
      echo "== seed=$sd $p rc=$rc ${e}s $(echo "$out" | grep -c '^KNOWN-FINDING') known, $(echo "$out" | grep -c '^VIOLATION') violations"
      echo "$out" | grep -E "^VIOLATION|^BROKEN|^FATAL|^ERROR|Traceback" | head -5
      if [ $rc -ne 0 ]; then mkdir -p /tmp/ms/fail_seed$sd; cp -r build/replay /tmp/ms/fail_seed$sd/$p 2>/dev/null; fi
    done
    rm -rf $d
  ) > /tmp/ms/seed$sd.log 2>&1 &
done
wait
