#!/usr/bin/env python3
"""Regenerate coq/Gen/*.v from /repo's working tree.

usage: gen.py [--repo /repo] [--out /verif/coq/Gen] [unit ...]
Writes a file only when its content changed (so make re-proves only what
depends on changed source).  Exit status 0 = all requested units translated;
3 = some unit is Untranslatable (message on stderr, file NOT written and any
stale copy removed so the build fails closed).
"""
import ast
import os
import sys

sys.path.insert(0, os.path.dirname(os.path.abspath(__file__)))
from pytrans import HEADER, Translator, Untranslatable, find_function  # noqa: E402

REPO = os.environ.get("VERIF_REPO", "/repo")
OUT = os.path.join(os.path.dirname(os.path.abspath(__file__)), "..", "..", "coq", "Gen")


def read_consts(repo):
    src = open(os.path.join(repo, "orix/constants.py")).read()
    tree = ast.parse(src)
    out = {}
    for n in tree.body:
        if isinstance(n, ast.Assign) and len(n.targets) == 1 and isinstance(n.targets[0], ast.Name) \
                and isinstance(n.value, ast.Constant) and isinstance(n.value.value, float):
            out["constants." + n.targets[0].id] = n.value.value
    return out


def write_if_changed(path, text):
    old = open(path).read() if os.path.exists(path) else None
    if old != text:
        with open(path, "w") as f:
            f.write(text)
        return True
    return False


# ---------------------------------------------------------------- units
def lead_index(sl):
    """'i' for subscripts  [i]  and  [i, :, :]  (full slices only after i)"""
    if isinstance(sl, ast.Name):
        return sl.id
    if isinstance(sl, ast.Tuple) and sl.elts and isinstance(sl.elts[0], ast.Name) and all(
            isinstance(e, ast.Slice) and e.lower is None and e.upper is None and e.step is None
            for e in sl.elts[1:]):
        return sl.elts[0].id
    return None


def unit_conversions(repo):
    rel = "orix/quaternion/_conversions.py"
    src = open(os.path.join(repo, rel)).read()
    tree = ast.parse(src)
    argspec = {"xyz": 3, "cu": 3, "ho": 3, "ax": 4, "ro": 4, "qu": 4, "eu": 3, "om": (3, 3)}
    tr = Translator(rel, consts=read_consts(repo), argspec=argspec)
    order = ["get_pyramid_single", "cu2ho_single", "ho2ax_single", "ax2ro_single", "ro2ax_single",
             "ax2qu_single", "qu2ax_single", "ho2ro_single", "cu2ro_single", "eu2qu_single",
             "om2qu_single", "qu2eu_single", "qu2om_single", "qu2ho_single"]
    text = HEADER.format(src=rel)
    for name in order:
        fn = find_function(tree, name)
        if fn is None:
            raise Untranslatable(f"function {name} not found", None, rel)
        t, argshapes, ret = tr.function(fn, ret_int=(name == "get_pyramid_single"))
        tr.known[name] = (name, argshapes, ret)
        text += "\n" + t
    # structural check of the vectorised wrappers: *_2d / *_3d must be
    #   for i in nb.prange(n): out[i] = f_single(in[i])
    # and the n-d wrappers  astype(float64) -> reshape(-1,k) -> *_2d -> reshape
    wrappers = []
    for n in tree.body:
        if isinstance(n, ast.FunctionDef) and (n.name.endswith("_2d") or n.name.endswith("_3d")):
            base = n.name.rsplit("_", 1)[0] + "_single"
            ok = False
            for st in n.body:
                if isinstance(st, ast.For) and len(st.body) == 1 and isinstance(st.body[0], ast.Assign):
                    a = st.body[0]
                    if (isinstance(a.value, ast.Call) and isinstance(a.value.func, ast.Name)
                            and a.value.func.id == base and len(a.value.args) == 1
                            and isinstance(a.value.args[0], ast.Subscript)
                            and isinstance(a.targets[0], ast.Subscript)
                            and lead_index(a.value.args[0].slice) == st.target.id
                            and lead_index(a.targets[0].slice) == st.target.id):
                        ok = True
            if not ok:
                raise Untranslatable(f"wrapper {n.name} is not a plain map of {base}", n, rel)
            wrappers.append(n.name)
    text += "\n(* structural check passed: the wrappers " + " ".join(wrappers) + \
            "\n   are element-wise maps of their *_single kernels *)\n"
    return "Conversions.v", text


def unit_quatkernels(repo):
    rel = "orix/quaternion/quaternion.py"
    src = open(os.path.join(repo, rel)).read()
    tree = ast.parse(src)
    text = HEADER.format(src=rel)
    specs = {
        "qu_conj_gufunc": {"qu": 4, "qu2": 4},
        "qu_multiply_gufunc": {"qu1": 4, "qu2": 4, "qu12": 4},
        "qu_rotate_vec_gufunc": {"qu": 4, "v1": 3, "v2": 3},
    }
    for name, spec in specs.items():
        fn = find_function(tree, name)
        if fn is None:
            raise Untranslatable(f"function {name} not found", None, rel)
        tr = Translator(rel, consts=read_consts(repo), argspec=spec)
        t, _, _ = tr.function(fn, gufunc=True)
        text += "\n" + t
    return "QuatKernels.v", text


UNITS = {
    "conversions": unit_conversions,
    "quatkernels": unit_quatkernels,
}


def discover_units():
    """units_*.py next to this file may define UNITS = {name: fn(repo) -> (filename, text)}"""
    import glob
    import importlib
    here = os.path.dirname(os.path.abspath(__file__))
    for f in sorted(glob.glob(os.path.join(here, "units_*.py"))):
        mod = importlib.import_module(os.path.basename(f)[:-3])
        UNITS.update(getattr(mod, "UNITS", {}))


def main(argv):
    discover_units()
    repo, out = REPO, OUT
    names = []
    i = 0
    while i < len(argv):
        if argv[i] == "--repo":
            repo = argv[i + 1]; i += 2
        elif argv[i] == "--out":
            out = argv[i + 1]; i += 2
        else:
            names.append(argv[i]); i += 1
    names = names or list(UNITS)
    os.makedirs(out, exist_ok=True)
    status = 0
    for n in names:
        try:
            fname, text = UNITS[n](repo)
        except Untranslatable as e:
            print(f"UNTRANSLATABLE unit={n}: {e}", file=sys.stderr)
            status = 3
            continue
        except (OSError, SyntaxError) as e:
            print(f"UNTRANSLATABLE unit={n}: {type(e).__name__}: {e}", file=sys.stderr)
            status = 3
            continue
        changed = write_if_changed(os.path.join(out, fname), text)
        print(f"gen {n}: {fname} {'updated' if changed else 'unchanged'}")
    return status


if __name__ == "__main__":
    sys.exit(main(sys.argv[1:]))
