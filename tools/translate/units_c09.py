"""Translator unit for property C09: orix/vector/miller.py -> coq/Gen/C09Miller.v

Regenerated from the source on every check (fail-closed):

* `_uvw2UVTW _UVTW2uvw _hkl2hkil _hkil2hkl` -- the array code
  (`x[..., k]`, `np.zeros(x.shape[:-1] + (n,))`, `np.asarray`) is first
  normalised to its per-vector form (a strict pattern match, anything else is
  Untranslatable) and then handed to the shared translator.  Both values of the
  `convention` keyword (None = DeGraef, "mtex") are generated.
* `_check_UVTW _check_hkil` -- `np.allclose(np.sum(x[..., :3], axis=-1), 0,
  atol=<const>)`, emitted as `|x0+x1+x2| <= atol`.
* `_transform_space` -- the if/elif chain over the two space strings is
  evaluated for all nine (space_in, space_out) pairs; each must end in
  `v_out = np.matmul|np.dot(v_in, <lattice matrix>)` or `np.copy(v_in)`;
  emitted as a `match` on which lattice matrix multiplies the row vector
  (the matrices of `MATS`: attributes of the lattice, the product
  `recbase.T @ recbase`, or `reciprocal().metrics`, which may raise).
* `Miller.cross` -- the `new_fmt = dict(...)` table (a missing key is a
  KeyError) and `Miller.space`.
"""
import ast
import copy
import os

from pytrans import HEADER, Translator, Untranslatable, find_function

REL = "orix/vector/miller.py"


def err(msg, node=None):
    raise Untranslatable(msg, node, REL)


# ------------------------------------------------------------ 4-index kernels
class Normalise(ast.NodeTransformer):
    """array code over a trailing axis -> code over one vector"""

    def __init__(self, arrays):
        self.arrays = set(arrays)

    def visit_Subscript(self, node):
        node = self.generic_visit(node)
        sl = node.slice
        if isinstance(sl, ast.Tuple) and len(sl.elts) == 2 and isinstance(sl.elts[0], ast.Constant) \
                and sl.elts[0].value is Ellipsis:
            if not (isinstance(node.value, ast.Name) and node.value.id in self.arrays):
                err("ellipsis index on something that is not a known array", node)
            return ast.copy_location(ast.Subscript(value=node.value, slice=sl.elts[1], ctx=node.ctx), node)
        for n in ast.walk(sl):
            if isinstance(n, ast.Constant) and n.value is Ellipsis:
                err("unsupported ellipsis index", node)
        return node


def is_shape_zeros(value, src):
    """np.zeros(<src>.shape[:-1] + (n,)) -> n"""
    if not (isinstance(value, ast.Call) and isinstance(value.func, ast.Attribute)
            and isinstance(value.func.value, ast.Name) and value.func.value.id == "np"
            and value.func.attr == "zeros" and len(value.args) == 1 and not value.keywords):
        return None
    a = value.args[0]
    if not (isinstance(a, ast.BinOp) and isinstance(a.op, ast.Add)):
        return None
    l, r = a.left, a.right
    if not (isinstance(l, ast.Subscript) and isinstance(l.value, ast.Attribute) and l.value.attr == "shape"
            and isinstance(l.value.value, ast.Name) and l.value.value.id == src
            and isinstance(l.slice, ast.Slice) and l.slice.lower is None and l.slice.step is None
            and isinstance(l.slice.upper, ast.UnaryOp) and isinstance(l.slice.upper.op, ast.USub)
            and isinstance(l.slice.upper.operand, ast.Constant) and l.slice.upper.operand.value == 1):
        return None
    if not (isinstance(r, ast.Tuple) and len(r.elts) == 1 and isinstance(r.elts[0], ast.Constant)
            and isinstance(r.elts[0].value, int)):
        return None
    return r.elts[0].value


def is_convention_test(test):
    """`convention is not None and convention.lower() == "mtex"`"""
    if not (isinstance(test, ast.BoolOp) and isinstance(test.op, ast.And) and len(test.values) == 2):
        return False
    a, b = test.values
    ok1 = (isinstance(a, ast.Compare) and isinstance(a.left, ast.Name) and a.left.id == "convention"
           and len(a.ops) == 1 and isinstance(a.ops[0], ast.IsNot)
           and isinstance(a.comparators[0], ast.Constant) and a.comparators[0].value is None)
    ok2 = (isinstance(b, ast.Compare) and isinstance(b.left, ast.Call) and not b.left.args
           and isinstance(b.left.func, ast.Attribute) and b.left.func.attr == "lower"
           and isinstance(b.left.func.value, ast.Name) and b.left.func.value.id == "convention"
           and len(b.ops) == 1 and isinstance(b.ops[0], ast.Eq)
           and isinstance(b.comparators[0], ast.Constant) and b.comparators[0].value == "mtex")
    return ok1 and ok2


def normalise_kernel(fn, mtex):
    """-> a FunctionDef in the subset of the shared translator; `mtex` selects
    the branch of the convention test (None: convention=None, the default)"""
    fn = copy.deepcopy(fn)
    args = [a.arg for a in fn.args.args]
    if not args or args[1:] not in ([], ["convention"]):
        err(f"unexpected signature of {fn.name}", fn)
    src = args[0]
    if args[1:] == ["convention"]:
        d = fn.args.defaults
        if not (len(d) == 1 and isinstance(d[0], ast.Constant) and d[0].value is None):
            err("default of `convention` is not None", fn)
    elif mtex:
        err(f"{fn.name} has no `convention`", fn)
    fn.args.args = fn.args.args[:1]
    fn.args.defaults = []
    body = []
    arrays = {src}
    for st in fn.body:
        if isinstance(st, ast.Expr) and isinstance(st.value, ast.Constant):
            continue
        # x = np.asarray(x)
        if (isinstance(st, ast.Assign) and len(st.targets) == 1 and isinstance(st.targets[0], ast.Name)
                and isinstance(st.value, ast.Call) and isinstance(st.value.func, ast.Attribute)
                and st.value.func.attr == "asarray" and isinstance(st.value.func.value, ast.Name)
                and st.value.func.value.id == "np" and len(st.value.args) == 1 and not st.value.keywords
                and isinstance(st.value.args[0], ast.Name)
                and st.value.args[0].id == st.targets[0].id == src):
            continue
        # X = np.zeros(src.shape[:-1] + (n,))
        if isinstance(st, ast.Assign) and len(st.targets) == 1 and isinstance(st.targets[0], ast.Name):
            n = is_shape_zeros(st.value, src)
            if n is not None:
                arrays.add(st.targets[0].id)
                body.append(ast.copy_location(ast.Assign(
                    targets=st.targets,
                    value=ast.Call(func=ast.Attribute(value=ast.Name(id="np", ctx=ast.Load()), attr="zeros",
                                                      ctx=ast.Load()),
                                   args=[ast.Constant(value=n)], keywords=[]), lineno=st.lineno), st))
                continue
        if isinstance(st, ast.If) and is_convention_test(st.test):
            if st.orelse:
                err("convention branch with else", st)
            if mtex:
                body.extend(st.body)
            continue
        body.append(st)
    fn.body = [Normalise(arrays).visit(s) for s in body]
    for n in ast.walk(fn):
        if isinstance(n, ast.Name) and n.id == "convention":
            err("`convention` used outside the recognised test", n)
        if isinstance(n, ast.Attribute) and n.attr == "shape":
            err("unrecognised use of .shape", n)
    ast.fix_missing_locations(fn)
    return fn


KERNELS = [("_uvw2UVTW", "uvw", 3), ("_UVTW2uvw", "UVTW", 4), ("_hkl2hkil", "hkl", 3), ("_hkil2hkl", "hkil", 4)]


def gen_kernels(tree):
    text = ""
    for name, arg, n in KERNELS:
        fn = find_function(tree, name)
        if fn is None:
            err(f"function {name} not found")
        has_conv = [a.arg for a in fn.args.args][1:] == ["convention"]
        for mtex in ([False, True] if has_conv else [False]):
            nf = normalise_kernel(fn, mtex)
            tr = Translator(REL, argspec={arg: n})
            coqname = name.lstrip("_") + ("_mtex" if mtex else "")
            t, _, ret = tr.function(nf, coqname=coqname)
            want = ("arr", 7 - n)
            if ret != want:
                err(f"{name} returns {ret}, expected {want}", fn)
            text += "\n" + t
    return text


# ------------------------------------------------------------ the two checks
def gen_checks(tree):
    text = ""
    for name, arg in (("_check_UVTW", "UVTW"), ("_check_hkil", "hkil")):
        fn = find_function(tree, name)
        if fn is None:
            err(f"function {name} not found")
        body = [s for s in fn.body if not (isinstance(s, ast.Expr) and isinstance(s.value, ast.Constant))]
        # optional  x = np.asarray(x)
        if body and isinstance(body[0], ast.Assign) and isinstance(body[0].value, ast.Call) \
                and getattr(body[0].value.func, "attr", "") == "asarray":
            body = body[1:]
        if not (len(body) == 1 and isinstance(body[0], ast.If) and not body[0].orelse):
            err(f"{name}: expected a single `if not np.allclose(...): raise`", fn)
        st = body[0]
        t = st.test
        if not (isinstance(t, ast.UnaryOp) and isinstance(t.op, ast.Not) and isinstance(t.operand, ast.Call)):
            err(f"{name}: test is not `not np.allclose(...)`", st)
        c = t.operand
        if not (isinstance(c.func, ast.Attribute) and c.func.attr == "allclose" and len(c.args) == 2
                and isinstance(c.args[1], ast.Constant) and c.args[1].value == 0
                and len(c.keywords) == 1 and c.keywords[0].arg == "atol"
                and isinstance(c.keywords[0].value, ast.Constant)
                and isinstance(c.keywords[0].value.value, float)):
            err(f"{name}: allclose call not of the form allclose(sum, 0, atol=<float>)", st)
        s = c.args[0]
        want = f"np.sum({arg}[..., :3], axis=-1)"
        if ast.unparse(s) != want:
            err(f"{name}: summed expression is `{ast.unparse(s)}`, expected `{want}`", st)
        if not (len(st.body) == 1 and isinstance(st.body[0], ast.Raise)
                and isinstance(st.body[0].exc, ast.Call) and getattr(st.body[0].exc.func, "id", "") == "ValueError"):
            err(f"{name}: body is not `raise ValueError(...)`", st)
        from fractions import Fraction
        q = Fraction(repr(c.keywords[0].value.value))
        coqname = name.lstrip("_")
        # np.allclose(x, 0, atol) == |x - 0| <= atol + rtol*|0|
        text += (f"\n(* {name}: raises ValueError unless |x0+x1+x2| <= atol *)\n"
                 f"Definition {coqname} {{T}} (O : Ops T) (x0 x1 x2 x3 : T) : bool :=\n"
                 f"  o_leb O (o_abs O (o_add O (o_add O x0 x1) x2)) (o_ofQ O ({q.numerator}) {q.denominator}).\n")
    return text


# ------------------------------------------------------------ _transform_space
SP = {"d": "Sd", "r": "Sr", "c": "Sc"}


def ev_test(t, env):
    """evaluate a test made of ==, not in, and/or over the two space strings"""
    if isinstance(t, ast.BoolOp):
        vals = [ev_test(v, env) for v in t.values]
        return all(vals) if isinstance(t.op, ast.And) else any(vals)
    if isinstance(t, ast.Compare) and len(t.ops) == 1:
        def val(n):
            if isinstance(n, ast.Name) and n.id in env:
                return env[n.id]
            if isinstance(n, ast.Constant) and isinstance(n.value, str):
                return n.value
            err(f"unsupported operand `{ast.unparse(n)}` in a space test", n)
        a, b = val(t.left), val(t.comparators[0])
        op = t.ops[0]
        if isinstance(op, ast.Eq):
            return a == b
        if isinstance(op, ast.NotEq):
            return a != b
        if isinstance(op, ast.In):
            return a in b
        if isinstance(op, ast.NotIn):
            return a not in b
    err(f"unsupported space test `{ast.unparse(t)}`", t)


MATS = {
    "lattice.base": "Ok (l_base L)",
    "lattice.base.T": "Ok (mtr (l_base L))",
    "lattice.recbase": "Ok (l_recbase L)",
    "lattice.recbase.T": "Ok (mtr (l_recbase L))",
    "lattice.metrics": "Ok (l_metrics L)",
    "lattice.metrics.T": "Ok (mtr (l_metrics L))",
    # reciprocal metric tensor built from the lattice's own reciprocal base (cannot raise)
    "np.matmul(lattice.recbase.T, lattice.recbase)": "Ok (mmul O (mtr (l_recbase L)) (l_recbase L))",
    "lattice.recbase.T @ lattice.recbase": "Ok (mmul O (mtr (l_recbase L)) (l_recbase L))",
    "np.dot(lattice.recbase.T, lattice.recbase)": "Ok (mmul O (mtr (l_recbase L)) (l_recbase L))",
    # a NEW diffpy Lattice(base=recbase.T): goes through setLatBase's determinant guard, may raise
    "lattice.reciprocal().metrics": "l_rec_metrics L",
    "lattice.reciprocal().metrics.T": "rmap mtr (l_rec_metrics L)",
}


def run_ts(stmts, env):
    """symbolically run the body for concrete space strings; returns the Coq
    expression of the returned value"""
    for st in stmts:
        if isinstance(st, ast.Expr) and isinstance(st.value, ast.Constant):
            continue
        if isinstance(st, ast.Assign) and len(st.targets) == 1 and isinstance(st.targets[0], ast.Name):
            tgt = st.targets[0].id
            v = st.value
            if isinstance(v, ast.List) and all(isinstance(e, ast.Constant) and isinstance(e.value, str)
                                               for e in v.elts):
                env[tgt] = [e.value for e in v.elts]
                continue
            if isinstance(v, ast.Call) and ast.unparse(v.func) == "np.copy" and len(v.args) == 1 \
                    and isinstance(v.args[0], ast.Name) and env.get(v.args[0].id) == ("vec", "v"):
                env[tgt] = ("coq", "Ok None")
                continue
            if isinstance(v, ast.Call) and ast.unparse(v.func) in ("np.matmul", "np.dot") and len(v.args) == 2 \
                    and not v.keywords and isinstance(v.args[0], ast.Name) \
                    and env.get(v.args[0].id) == ("vec", "v"):
                m = ast.unparse(v.args[1])
                if m not in MATS:
                    err(f"unknown lattice matrix `{m}`", st)
                env[tgt] = ("coq", f"rmap Some ({MATS[m]})")
                continue
            err(f"unsupported assignment `{ast.unparse(st)}`", st)
        if isinstance(st, ast.If):
            branch = st.body if ev_test(st.test, env) else st.orelse
            r = run_ts(branch, env)
            if r is not None:
                return r
            continue
        if isinstance(st, ast.Raise):
            if isinstance(st.exc, ast.Call) and getattr(st.exc.func, "id", "") == "ValueError":
                return "Err ValueError"
            err("unsupported raise", st)
        if isinstance(st, ast.Return):
            if isinstance(st.value, ast.Name) and isinstance(env.get(st.value.id), tuple) \
                    and env[st.value.id][0] == "coq":
                return env[st.value.id][1]
            err("unsupported return value", st)
        err(f"unsupported statement {type(st).__name__}", st)
    return None


def gen_transform_space(tree):
    fn = find_function(tree, "_transform_space")
    if fn is None:
        err("function _transform_space not found")
    args = [a.arg for a in fn.args.args]
    if args != ["v_in", "space_in", "space_out", "lattice"]:
        err(f"unexpected signature of _transform_space: {args}", fn)
    rows = []
    for si in "drc":
        for so in "drc":
            env = {"v_in": ("vec", "v"), "space_in": si, "space_out": so}
            r = run_ts(fn.body, env)
            if r is None:
                err(f"_transform_space falls off the end for ({si},{so})", fn)
            rows.append(f"  | {SP[si]}, {SP[so]} => {r}")
    # an invalid space string must raise ValueError (the model's [space] type has no such value;
    # the check is kept so that the generated table is known to be total on valid input only)
    bad = run_ts(fn.body, {"v_in": ("vec", "v"), "space_in": "x", "space_out": "d"})
    note = "(* invalid space string: " + str(bad) + " *)"
    return ("\n(* _transform_space: which lattice matrix multiplies the row vector(s);\n"
            "   None = np.copy(v_in).  The matrix (and any exception raised while fetching it)\n"
            "   does not depend on the vectors. *)\n"
            "Definition transform_matrix {T} (O : Ops T) (L : lattice T) (si so : space)\n"
            "  : res (option (mat3 T)) :=\n  match si, so with\n" + "\n".join(rows) + "\n  end.\n" + note + "\n"
            "Definition transform_space {T} (O : Ops T) (L : lattice T) (si so : space) (v : vec3 T)\n"
            "  : res (vec3 T) := rmap (fun M => apply_matrix O M v) (transform_matrix O L si so).\n"
            "Definition transform_space_arr {T} (O : Ops T) (L : lattice T) (si so : space) (vs : list (vec3 T))\n"
            "  : res (list (vec3 T)) := rmap (fun M => List.map (apply_matrix O M) vs) (transform_matrix O L si so).\n")


# ------------------------------------------------------------ Miller.cross / space
FM = {"xyz": "Fxyz", "uvw": "Fuvw", "UVTW": "FUVTW", "hkl": "Fhkl", "hkil": "Fhkil"}


def find_method(tree, cls, name, prop=False):
    for n in tree.body:
        if isinstance(n, ast.ClassDef) and n.name == cls:
            for m in n.body:
                if isinstance(m, ast.FunctionDef) and m.name == name:
                    is_setter = any(isinstance(d, ast.Attribute) and d.attr == "setter" for d in m.decorator_list)
                    if not is_setter:
                        return m
    err(f"{cls}.{name} not found")


def gen_cross_format(tree):
    fn = find_method(tree, "Miller", "cross")
    table = None
    used = False
    for n in ast.walk(fn):
        if isinstance(n, ast.Assign) and len(n.targets) == 1 and isinstance(n.targets[0], ast.Name) \
                and n.targets[0].id == "new_fmt":
            v = n.value
            if isinstance(v, ast.Call) and getattr(v.func, "id", "") == "dict" and not v.args:
                table = {k.arg: k.value.value for k in v.keywords
                         if isinstance(k.value, ast.Constant) and isinstance(k.value.value, str)}
                if len(table) != len(v.keywords):
                    err("new_fmt has a non-literal entry", n)
            elif isinstance(v, ast.Dict):
                table = {}
                for k, x in zip(v.keys, v.values):
                    if not (isinstance(k, ast.Constant) and isinstance(x, ast.Constant)):
                        err("new_fmt has a non-literal entry", n)
                    table[k.value] = x.value
            else:
                err("new_fmt is not a literal dict", n)
        if isinstance(n, ast.Assign) and ast.unparse(n.targets[0]) == "m.coordinate_format" \
                and ast.unparse(n.value) == "new_fmt[self.coordinate_format]":
            used = True
    if table is None or not used:
        err("Miller.cross: `m.coordinate_format = new_fmt[self.coordinate_format]` not found", fn)
    src = ast.unparse(fn)
    if "xyz=super().cross(other).data" not in src:
        err("Miller.cross: result data is not `super().cross(other).data`", fn)
    rows = []
    for k, c in FM.items():
        if k in table:
            if table[k] not in FM:
                err(f"new_fmt[{k}] = {table[k]} is not a coordinate format", fn)
            rows.append(f"  | {c} => Ok {FM[table[k]]}")
        else:
            rows.append(f"  | {c} => Err KeyError")
    text = ("\n(* Miller.cross: new_fmt[self.coordinate_format] *)\n"
            "Definition cross_format (f : fmt) : res fmt :=\n  match f with\n" + "\n".join(rows) + "\n  end.\n")
    # Miller.space
    fn = find_method(tree, "Miller", "space")
    body = [s for s in fn.body if not (isinstance(s, ast.Expr) and isinstance(s.value, ast.Constant))]
    if not (len(body) == 1 and isinstance(body[0], ast.If)):
        err("Miller.space: expected a single if/else", fn)
    st = body[0]
    t = st.test
    if not (isinstance(t, ast.Compare) and ast.unparse(t.left) == "self.coordinate_format"
            and len(t.ops) == 1 and isinstance(t.ops[0], ast.In) and isinstance(t.comparators[0], ast.List)):
        err("Miller.space: unexpected test", st)
    lst = [e.value for e in t.comparators[0].elts]

    def retval(b):
        if len(b) == 1 and isinstance(b[0], ast.Return) and isinstance(b[0].value, ast.Constant) \
                and b[0].value.value in ("d", "r"):
            return SP[b[0].value.value]
        err("Miller.space: unexpected return", st)
    a, b = retval(st.body), retval(st.orelse)
    rows = [f"  | {c} => {a if k in lst else b}" for k, c in FM.items()]
    text += ("\n(* Miller.space *)\nDefinition fmt_space (f : fmt) : space :=\n  match f with\n"
             + "\n".join(rows) + "\n  end.\n")
    return text


def unit_c09miller(repo):
    src = open(os.path.join(repo, REL)).read()
    tree = ast.parse(src)
    text = HEADER.format(src=REL).replace("From Verif Require Import Scalar.",
                                          "From Verif Require Import Scalar C09Lin.").replace("From Coq Require Import ZArith Bool.", "From Coq Require Import ZArith Bool List.")
    text += gen_kernels(tree)
    text += gen_checks(tree)
    text += gen_transform_space(tree)
    text += gen_cross_format(tree)
    return "C09Miller.v", text


UNITS = {"c09miller": unit_c09miller}
