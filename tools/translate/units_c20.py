"""Translator units for C20 (stereographic projection, spherical coordinates).

The functions of orix/projections/stereographic.py and orix/vector/vector3d.py
are numpy-vectorised element-wise code.  Each unit reads the function from
/repo's working tree, checks that the array plumbing has exactly the expected
form (``v.unit.xyz`` unpacking, ``self.data[..., k]``, ``np.stack(..., axis=-1)``,
``np.atleast_1d``, ``np.divide(..., where=, out=np.zeros_like())`` ...), and
symbolically executes the body ON ONE ELEMENT with pytrans.Translator, so the
Coq definition is the scalar function that the vectorised code maps over its
input.  Anything else raises Untranslatable (fail closed).
"""
import ast
import copy
import os
import re
import sys
from fractions import Fraction

sys.path.insert(0, os.path.dirname(os.path.abspath(__file__)))
from pytrans import (HEADER, Arr, Bo, Const, ConstF, Sc, Translator, TupleV,  # noqa: E402
                     Untranslatable, find_function, proj_code)


class ViewArr(Arr):
    """length-1 array that is a VIEW of one column of an attribute array
    (self.data[..., k]): stores through it mutate the attribute"""

    def __init__(self, items, view):
        super().__init__(items)
        self.view = view


class ElemTranslator(Translator):
    """Translator for the element-wise reading of numpy-vectorised methods."""

    def __init__(self, fname, attrs=None, **kw):
        super().__init__(fname, **kw)
        # dotted attribute -> value (e.g. "self.pole" -> Sc("pole"))
        self.attrs = attrs or {}
        # dotted attribute -> known function called on self.data
        self.props = {}

    # -- expressions ----------------------------------------------------
    def expr(self, node, env):
        if isinstance(node, ast.Attribute):
            d = self.dotted(node)
            if d in self.attrs:
                return self.attrs[d]
            if d in self.props:
                coqname, ret, datafn = self.props[d]
                data = self.attrs["self.data"]
                argc = " ".join(self.sc(x, node) for x in data.items)
                code = f"({coqname} O {argc})"
                if datafn:
                    # the property mutates self.data in place: later reads see the new state
                    n = len(data.items)
                    self.attrs["self.data"] = Arr(
                        [Sc(proj_code(f"({datafn} O {argc})", i, n)) for i in range(n)])
                return self.unpack_ret(code, ret)
            # <ndarray>.data of a property value is the array itself
            if node.attr == "data":
                d2 = self.dotted(node.value)
                if d2 in self.props:
                    return self.expr(node.value, env)
        if isinstance(node, ast.Subscript):
            # self.data[..., k]
            d = self.dotted(node.value)
            sl = node.slice
            if d in self.attrs and isinstance(sl, ast.Tuple) and len(sl.elts) == 2 \
                    and isinstance(sl.elts[0], ast.Constant) and sl.elts[0].value is Ellipsis:
                base = self.attrs[d]
                k = self.pyint(sl.elts[1], env)
                if not 0 <= k < len(base):
                    self.err("component index out of range", node)
                # one element of the column, as a length-1 array so that
                # boolean-mask stores x[mask] = c keep their meaning
                return ViewArr([base.items[k]], (d, k))
        return super().expr(node, env)

    def assign(self, target, val, env, node):
        view = None
        if isinstance(target, ast.Subscript) and isinstance(target.value, ast.Name):
            cur = env.get(target.value.id)
            if isinstance(cur, ViewArr):
                view = cur.view
        super().assign(target, val, env, node)
        if view is not None:
            name = target.value.id
            new = env[name]
            if not (isinstance(new, Arr) and len(new) == 1):
                self.err("store through a view changed its shape", node)
            env[name] = ViewArr(new.items, view)
            d, k = view
            items = list(self.attrs[d].items)
            items[k] = new.items[0]
            self.attrs[d] = Arr(items)

    def binop(self, op, a, b, node):
        # bool * number  (numpy: True -> 1, False -> 0)
        if isinstance(op, ast.Mult) and not isinstance(a, Arr) and not isinstance(b, Arr):
            if isinstance(a, Bo) and self.is_num(b):
                return Sc(f"(if {a.code} then {self.sc(b, node)} else (o_ofZ O (0)))")
            if isinstance(b, Bo) and self.is_num(a):
                return Sc(f"(if {b.code} then {self.sc(a, node)} else (o_ofZ O (0)))")
        return super().binop(op, a, b, node)

    def call(self, node, env):
        # <array>.copy(): same values, no longer a view of the attribute
        if isinstance(node.func, ast.Attribute) and node.func.attr == "copy" \
                and not node.args and not node.keywords:
            v = self.expr(node.func.value, env)
            if isinstance(v, Arr):
                return Arr(list(v.items))
        d = self.dotted(node.func)
        kw = {k.arg: k.value for k in node.keywords}
        if d == "np.divide" and set(kw) == {"where", "out"}:
            out = kw["out"]
            if not (isinstance(out, ast.Call) and self.dotted(out.func) == "np.zeros_like"):
                self.err("np.divide(out=...) must be np.zeros_like(...)", node)
            num = self.expr(node.args[0], env)
            den = self.expr(node.args[1], env)
            where = self.expr(kw["where"], env)
            q = self.binop(ast.Div(), num, den, node)
            return self.merge(where, q, Const(0), node)
        if d == "np.isclose" and set(kw) <= {"atol"} and len(node.args) == 2:
            a = self.expr(node.args[0], env)
            b = self.expr(node.args[1], env)
            if not isinstance(b, Const):
                self.err("np.isclose second argument must be a constant", node)
            # |a - b| <= atol + rtol * |b| with numpy's default rtol (and atol unless given);
            # finite operands only (for nan/inf numpy compares with ==)
            rel = Fraction(1, 10 ** 5) * abs(b.v)
            if "atol" in kw:
                at = self.expr(kw["atol"], env)
                if isinstance(at, Arr):
                    if len(at) != 1:
                        self.err("np.isclose(atol=) must be one number per element", node)
                    at = at.items[0]
                if not self.is_num(at):
                    self.err("np.isclose(atol=) is not a number", node)
                tolc = self.sc(at if rel == 0 else self.binop(ast.Add(), at, Const(rel), node), node)
            else:
                tolc = self.sc(Const(Fraction(1, 10 ** 8) + rel), node)

            def one(x):
                diff = x if b.v == 0 else self.binop(ast.Sub(), x, b, node)
                return Bo(f"(o_leb O (o_abs O {self.sc(diff, node)}) {tolc})")
            return self.map1(one, a)
        if d == "np.atleast_1d" and len(node.args) == 1 and not kw:
            return self.expr(node.args[0], env)
        if d in ("np.deg2rad", "np.rad2deg") and len(node.args) == 1 and not kw:
            v = self.expr(node.args[0], env)
            if d == "np.deg2rad":
                f = "(o_div O (o_pi O) (o_ofZ O (180)))"
            else:
                f = "(o_div O (o_ofZ O (180)) (o_pi O))"
            return self.map1(lambda x: Sc(f"(o_mul O {self.sc(x, node)} {f})"), v)
        if d in ("np.stack", "np.column_stack"):
            if d == "np.stack":
                ax = kw.get("axis")
                if not (isinstance(ax, ast.UnaryOp) and isinstance(ax.op, ast.USub)
                        and isinstance(ax.operand, ast.Constant) and ax.operand.value == 1):
                    self.err("np.stack must use axis=-1", node)
            elif kw:
                self.err("np.column_stack keywords", node)
            v = self.expr(node.args[0], env)
            if not isinstance(v, (TupleV, Arr)):
                self.err("stack of non-sequence", node)
            return Arr([self.scalarize(x, node) for x in v.items])
        if d in ("cls", "Vector3d") and len(node.args) == 1 and not kw:
            v = self.expr(node.args[0], env)
            if not (isinstance(v, Arr) and len(v) == 3):
                self.err("vector constructor needs 3 components", node)
            return v
        return super().call(node, env)

    def ret_code(self, v, node):
        # length-1 arrays are the element itself
        def squeeze(x):
            if isinstance(x, (Arr, TupleV)) and len(x.items) == 1:
                return squeeze(x.items[0])
            if isinstance(x, TupleV):
                return TupleV([squeeze(y) for y in x.items])
            return x
        return super().ret_code(squeeze(v), node)


def synth(fn, keep_args, body=None):
    """copy of FunctionDef fn with only the named positional arguments"""
    new = copy.deepcopy(fn)
    new.args.args = [a for a in new.args.args if a.arg in keep_args]
    new.args.defaults = []
    if body is not None:
        new.body = body
    return new


def strip_doc(body):
    if body and isinstance(body[0], ast.Expr) and isinstance(body[0].value, ast.Constant):
        return body[1:]
    return body


def same_body(stmts, want):
    """statement list equals the given source lines (compared as ASTs)"""
    got = [ast.dump(x) for x in strip_doc(stmts)]
    exp = [ast.dump(x) for x in ast.parse("\n".join(want)).body]
    return got == exp


def add_bool_param(text, name):
    return text.replace("(O : Ops T) (", f"(O : Ops T) ({name} : bool) (", 1)


def unit_c20stereo(repo):
    text = HEADER.format(src="orix/projections/stereographic.py, orix/vector/vector3d.py")

    # ------------------------------------------------ stereographic.py
    rel = "orix/projections/stereographic.py"
    tree = ast.parse(open(os.path.join(repo, rel)).read())

    # _vector2xy(v, pole): first statement must be  vx, vy, vz = v.unit.xyz
    fn = find_function(tree, "_vector2xy")
    if fn is None:
        raise Untranslatable("function _vector2xy not found", None, rel)
    body = strip_doc(fn.body)
    st0 = body[0]
    ok = (isinstance(st0, ast.Assign) and len(st0.targets) == 1
          and isinstance(st0.targets[0], ast.Tuple)
          and [getattr(e, "id", None) for e in st0.targets[0].elts] == ["vx", "vy", "vz"]
          and ast.dump(st0.value) == ast.dump(ast.parse("v.unit.xyz", mode="eval").body))
    if not ok or [a.arg for a in fn.args.args] != ["v", "pole"]:
        raise Untranslatable("_vector2xy does not start with `vx, vy, vz = v.unit.xyz`", st0, rel)
    tr = ElemTranslator(rel, argspec={"pole": 0})
    f2 = synth(fn, ["pole"], body[1:])
    # vx vy vz are the components of v.unit (normalisation is Model/C20Stereo.vunit)
    t, _, ret = tr.function(f2, coqname="vector2xy_k",
                            extra_env={"vx": Sc("vx"), "vy": Sc("vy"), "vz": Sc("vz")})
    if ret != ("arr", 2):
        raise Untranslatable(f"_vector2xy returns {ret}, expected (x, y)", fn, rel)
    t = t.replace("(O : Ops T) (pole : T)", "(O : Ops T) (vx vy vz pole : T)", 1)
    text += "\n(* _vector2xy on the components (vx, vy, vz) of v.unit *)\n" + t

    # the public method must select by region and call the kernel with self.pole
    cls = [n for n in tree.body if isinstance(n, ast.ClassDef) and n.name == "StereographicProjection"]
    if not cls:
        raise Untranslatable("class StereographicProjection not found", None, rel)
    m = find_function(cls[0], "vector2xy")
    want = ["v = v.unit", "v = v[v <= self.region]", "return _vector2xy(v, pole=self.pole)"]
    got = [ast.unparse(s) for s in strip_doc(m.body)]
    if not same_body(m.body, want):
        raise Untranslatable(f"StereographicProjection.vector2xy body changed: {got}", m, rel)
    ini = find_function(cls[0], "__init__")
    got = [ast.unparse(s) for s in strip_doc(ini.body)]
    if not same_body(ini.body, ["self.pole = pole", "self.region = SphericalRegion([0, 0, pole * -1])"]):
        raise Untranslatable(f"StereographicProjection.__init__ body changed: {got}", ini, rel)
    sp = find_function(cls[0], "vector2xy_split")
    got = [ast.unparse(s) for s in strip_doc(sp.body)]
    want = ["v = v.unit",
            "(x_upper, y_upper) = _vector2xy(v[v <= _UPPER_HEMISPHERE], pole=-1)",
            "(x_lower, y_lower) = _vector2xy(v[v <= _LOWER_HEMISPHERE], pole=1)",
            "return (x_upper, y_upper, x_lower, y_lower)"]
    if not same_body(sp.body, want):
        raise Untranslatable(f"vector2xy_split body changed: {got}", sp, rel)
    glob = {ast.unparse(s) for s in tree.body if isinstance(s, ast.Assign)}
    for w in ("_UPPER_HEMISPHERE = SphericalRegion([0, 0, 1])",
              "_LOWER_HEMISPHERE = SphericalRegion([0, 0, -1])"):
        if w not in glob:
            raise Untranslatable(f"module constant changed: {w}", None, rel)
    text += ("\n(* structural check passed: vector2xy = (v = v.unit; _vector2xy(v[v <= SphericalRegion([0,0,-pole])], pole));"
             "\n   vector2xy_split = (v = v.unit; pole -1 on v <= [0,0,1], pole 1 on v <= [0,0,-1]) *)\n")

    # xy2vector(self, x, y)
    icl = [n for n in tree.body if isinstance(n, ast.ClassDef) and n.name == "InverseStereographicProjection"]
    if not icl:
        raise Untranslatable("class InverseStereographicProjection not found", None, rel)
    fn = find_function(icl[0], "xy2vector")
    tr = ElemTranslator(rel, attrs={"self.pole": Sc("pole")}, argspec={"x": 0, "y": 0})
    t, _, ret = tr.function(synth(fn, ["x", "y"]), coqname="xy2vector")
    if ret != ("arr", 3):
        raise Untranslatable(f"xy2vector returns {ret}", fn, rel)
    t = t.replace("(O : Ops T) (x y : T)", "(O : Ops T) (pole x y : T)", 1)
    text += "\n" + t
    x2s = find_function(icl[0], "xy2spherical")
    got = [ast.unparse(s) for s in strip_doc(x2s.body)]
    if not same_body(x2s.body, ["v = self.xy2vector(x=x, y=y)", "(azimuth, polar, _) = v.to_polar(degrees=degrees)",
               "return (azimuth, polar)"]):
        raise Untranslatable(f"xy2spherical body changed: {got}", x2s, rel)
    s2x = find_function(cls[0], "spherical2xy")
    got = [ast.unparse(s) for s in strip_doc(s2x.body)]
    if not same_body(s2x.body, ["v = Vector3d.from_polar(azimuth, polar, degrees=degrees)", "return self.vector2xy(v)"]):
        raise Untranslatable(f"spherical2xy body changed: {got}", s2x, rel)

    # ------------------------------------------------------ vector3d.py
    rel = "orix/vector/vector3d.py"
    tree = ast.parse(open(os.path.join(repo, rel)).read())
    vcl = [n for n in tree.body if isinstance(n, ast.ClassDef) and n.name == "Vector3d"]
    if not vcl:
        raise Untranslatable("class Vector3d not found", None, rel)
    vcl = vcl[0]

    def method(name, prop=False):
        for n in vcl.body:
            if isinstance(n, ast.FunctionDef) and n.name == name:
                is_prop = any(isinstance(d, ast.Name) and d.id == "property" for d in n.decorator_list)
                if is_prop == prop:
                    return n
        raise Untranslatable(f"Vector3d.{name} not found", None, rel)

    data = Arr([Sc("d0"), Sc("d1"), Sc("d2")])
    props = {}

    def prop_unit(name, coqname):
        fn = method(name, prop=True)
        tr = ElemTranslator(rel, attrs={"self.data": data}, argspec={})
        tr.props = dict(props)
        t, _, ret = tr.function(synth(fn, []), coqname=coqname)
        if ret != "scalar":
            raise Untranslatable(f"Vector3d.{name} returns {ret}, expected one number per vector", fn, rel)
        t = t.replace("(O : Ops T) ( : T)", "(O : Ops T) (d0 d1 d2 : T)", 1)
        final = tr.attrs["self.data"]
        datafn = None
        if [x.code for x in final.items] != [x.code for x in data.items]:
            # in-place mutation of self.data through views: emit the state after the call
            datafn = coqname + "_data"
            t += (f"\n(* Vector3d.{name} MUTATES self.data in place; state of the element after the call *)\n"
                  f"Definition {datafn} {{T}} (O : Ops T) (d0 d1 d2 : T) : (T * T * T)%type :=\n  ("
                  + ", ".join(tr.sc(x) for x in final.items) + ").\n")
        props["self." + name] = (coqname, "scalar", datafn)
        return "\n" + t

    text += prop_unit("radial", "v_radial")
    text += prop_unit("azimuth", "v_azimuth")
    text += prop_unit("polar", "v_polar")

    fn = method("to_polar")
    tr = ElemTranslator(rel, attrs={"self.data": data, "degrees": Bo("degrees")}, argspec={})
    tr.props = dict(props)
    t, _, ret = tr.function(synth(fn, []), coqname="to_polar", extra_env={"degrees": Bo("degrees")})
    if ret != ("arr", 3):
        raise Untranslatable(f"to_polar returns {ret}", fn, rel)
    t = t.replace("(O : Ops T) ( : T)", "(O : Ops T) (degrees : bool) (d0 d1 d2 : T)", 1)
    text += "\n" + t

    fn = method("from_polar")
    names = [a.arg for a in fn.args.args]
    if names != ["cls", "azimuth", "polar", "radial", "degrees"]:
        raise Untranslatable(f"from_polar signature changed: {names}", fn, rel)
    dflt = [ast.unparse(d) for d in fn.args.defaults]
    if dflt != ["1.0", "False"]:
        raise Untranslatable(f"from_polar defaults changed: {dflt}", fn, rel)
    tr = ElemTranslator(rel, argspec={"azimuth": 0, "polar": 0, "radial": 0})
    t, _, ret = tr.function(synth(fn, ["azimuth", "polar", "radial"]), coqname="from_polar",
                            extra_env={"degrees": Bo("degrees")})
    if ret != ("arr", 3):
        raise Untranslatable(f"from_polar returns {ret}", fn, rel)
    t = add_bool_param(t, "degrees")
    text += "\n" + t

    # Object3d.unit (orix/_base.py): nan_to_num(data / norm)
    rel = "orix/_base.py"
    tree = ast.parse(open(os.path.join(repo, rel)).read())
    fn = find_function(tree, "unit")
    src = " ".join(ast.unparse(s) for s in strip_doc(fn.body))
    src = re.sub(r"\s+", " ", src)
    want = ("with np.errstate(divide='ignore', invalid='ignore'): "
            "obj = self.__class__(np.nan_to_num(self.data / self.norm[..., np.newaxis])) return obj")
    if src != want:
        raise Untranslatable(f"Object3d.unit body changed: {src}", fn, rel)
    fn = find_function(tree, "norm")
    got = [ast.unparse(s) for s in strip_doc(fn.body)]
    if not same_body(fn.body, ["return np.sqrt(np.sum(np.square(self.data), axis=-1))"]):
        raise Untranslatable(f"Object3d.norm body changed: {got}", fn, rel)
    text += ("\n(* structural check passed: Object3d.unit = nan_to_num(data / sqrt(sum(square(data)))),"
             "\n   modelled by Model/C20Stereo.vunit *)\n")

    # SphericalRegion.__ge__ threshold
    rel = "orix/vector/spherical_region.py"
    tree = ast.parse(open(os.path.join(repo, rel)).read())
    fn = find_function(tree, "__ge__")
    got = [ast.unparse(s) for s in strip_doc(fn.body)]
    if not same_body(fn.body, ["return np.all(self.dot_outer(x) > -1e-09, axis=0)"]):
        raise Untranslatable(f"SphericalRegion.__ge__ body changed: {got}", fn, rel)
    text += ("\nDefinition region_ge_k {T} (O : Ops T) (n0 n1 n2 x0 x1 x2 : T) : bool :=\n"
             "  o_ltb O (o_opp O (o_ofQ O 1 1000000000))\n"
             "    (o_add O (o_add O (o_mul O n0 x0) (o_mul O n1 x1)) (o_mul O n2 x2)).\n"
             "(* from SphericalRegion.__ge__: np.all(self.dot_outer(x) > -1e-09, axis=0), one normal *)\n")
    return "C20Stereo.v", text


UNITS = {"c20stereo": unit_c20stereo}
