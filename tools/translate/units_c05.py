"""Translator unit 'regions': regenerate coq/Gen/RegionCerts*.v -- the exact directions of the normals of
OrientationRegion.from_symmetry for all ordered pairs of proper point groups, their exact distinguished points and
exact Farkas certificates (tools/impl/c05cert.py; runs orix from /repo + an LP; everything is CHECKED in Coq)."""
import glob
import hashlib
import json
import os
import subprocess

from pytrans import Untranslatable

HERE = os.path.dirname(os.path.abspath(__file__))
VERIF = os.path.abspath(os.path.join(HERE, "..", ".."))
GEN = os.path.join(VERIF, "coq", "Gen")


def src_hash(repo):
    h = hashlib.sha1()
    for rel in ["orix/quaternion/symmetry.py", "orix/quaternion/rotation.py", "orix/quaternion/quaternion.py",
                "orix/quaternion/orientation_region.py", "orix/_base.py", "orix/quaternion/_conversions.py",
                "orix/vector/vector3d.py", "orix/vector/neo_euler.py", "orix/vector/spherical_region.py", "orix/constants.py"]:
        p = os.path.join(repo, rel)
        h.update(open(p, "rb").read() if os.path.exists(p) else b"missing")
    for f in (os.path.join(VERIF, "tools", "impl", "c05cert.py"), os.path.join(VERIF, "tools", "impl", "c07cert.py"),
              os.path.join(VERIF, "tools", "lib", "kfield.py"), __file__):
        h.update(open(f, "rb").read())
    return h.hexdigest()


def unit_regions(repo):
    h = src_hash(repo)
    idx = os.path.join(GEN, "RegionCertsAll.v")
    if os.path.exists(idx) and os.path.exists(os.path.join(GEN, "RegionExistAll.v")) and h in open(idx).readline():
        return "RegionCertsAll.v", open(idx).read()
    for f in glob.glob(os.path.join(GEN, "RegionCerts*.v")) + glob.glob(os.path.join(GEN, "RegionExist*.v")) + glob.glob(os.path.join(GEN, "RegionUniq*.v")):
        os.remove(f)
    env = dict(os.environ)
    env.update(PYTHONPATH=repo, PYTHONHASHSEED="0", NUMBA_CACHE_DIR=os.path.join(VERIF, "build", "numba"),
               PYTHONWARNINGS="ignore", MPLBACKEND="Agg")
    os.makedirs(os.path.join(VERIF, "build", "numba"), exist_ok=True)
    p = subprocess.run(["/venv/bin/python", os.path.join(VERIF, "tools", "impl", "c05cert.py"), GEN],
                       capture_output=True, text=True, env=env, cwd=os.path.join(VERIF, "build"), timeout=1800)
    if p.returncode != 0 or "@@JSON@@" not in p.stdout:
        raise Untranslatable("region certificates could not be generated: " + (p.stderr + p.stdout)[-600:], None, "runtime")
    summary = json.loads(p.stdout[p.stdout.rfind("@@JSON@@") + 8:])
    json.dump(summary, open(os.path.join(VERIF, "build", "c05_certs_summary.json"), "w"))
    for f in glob.glob(os.path.join(GEN, "region_normals_*.json")):
        os.replace(f, os.path.join(VERIF, "build", os.path.basename(f)))
    text = f"(* src-hash {h} *)\n" + open(idx).read()
    return "RegionCertsAll.v", text


UNITS = {"regions": unit_regions}
