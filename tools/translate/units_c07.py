"""Translator unit 'sectors': regenerate coq/Gen/SectorCerts*.v -- the exact directions of the normals of
Symmetry.fundamental_sector for all 38 named point groups and their Laue groups, with cover trees / Gordan
certificates showing that each sector is a fundamental domain, or an exact witness direction when it is not
(tools/impl/c07cert.py; runs orix from /repo + LPs; everything is CHECKED in Coq)."""
import glob
import hashlib
import json
import os
import subprocess

from pytrans import Untranslatable

HERE = os.path.dirname(os.path.abspath(__file__))
VERIF = os.path.abspath(os.path.join(HERE, "..", ".."))
GEN = os.path.join(VERIF, "coq", "Gen")


def src_hash(repo):
    h = hashlib.sha1()
    for rel in ["orix/quaternion/symmetry.py", "orix/quaternion/rotation.py", "orix/quaternion/quaternion.py",
                "orix/_base.py", "orix/quaternion/_conversions.py", "orix/vector/vector3d.py",
                "orix/vector/fundamental_sector.py", "orix/vector/spherical_region.py", "orix/constants.py"]:
        p = os.path.join(repo, rel)
        h.update(open(p, "rb").read() if os.path.exists(p) else b"missing")
    for f in (os.path.join(VERIF, "tools", "impl", "c07cert.py"), os.path.join(VERIF, "tools", "lib", "kfield.py"), __file__):
        h.update(open(f, "rb").read())
    return h.hexdigest()


def unit_sectors(repo):
    h = src_hash(repo)
    idx = os.path.join(GEN, "SectorCertsAll.v")
    summ = os.path.join(VERIF, "build", "c07_sector_summary.json")
    if os.path.exists(idx) and os.path.exists(summ) and h in open(idx).readline():
        return "SectorCertsAll.v", open(idx).read()
    for f in glob.glob(os.path.join(GEN, "SectorCerts*.v")):
        os.remove(f)
    env = dict(os.environ)
    env.update(PYTHONPATH=repo, PYTHONHASHSEED="0", NUMBA_CACHE_DIR=os.path.join(VERIF, "build", "numba"),
               PYTHONWARNINGS="ignore", MPLBACKEND="Agg")
    os.makedirs(os.path.join(VERIF, "build", "numba"), exist_ok=True)
    p = subprocess.run(["/venv/bin/python", os.path.join(VERIF, "tools", "impl", "c07cert.py"), GEN],
                       capture_output=True, text=True, env=env, cwd=os.path.join(VERIF, "build"), timeout=1800)
    if p.returncode != 0 or "@@JSON@@" not in p.stdout:
        raise Untranslatable("sector certificates could not be generated: " + (p.stderr + p.stdout)[-600:], None, "runtime")
    summary = json.loads(p.stdout[p.stdout.rfind("@@JSON@@") + 8:])
    json.dump(summary, open(summ, "w"))
    text = f"(* src-hash {h} *)\n" + open(idx).read()
    return "SectorCertsAll.v", text


UNITS = {"sectors": unit_sectors}
