"""Translator unit for C08 (IPF colour keys).

Unit ``c08color`` -> coq/Gen/C08Color.v, regenerated from /repo on every run:

* ``hsl_to_hsv`` (orix/plot/direction_color_keys/_util.py), element-wise reading
  of the numpy-vectorised body: ``np.where(c, a, b)`` = ``if c then a else b``;
  ``x[np.isnan(x)] = k`` where ``x`` is a quotient ``a / b`` of finite numbers =
  ``if a == 0 and b == 0 then k else a / b`` (0/0 is the only way a quotient of
  finite float64 numbers is NaN; a/0 with a != 0 is +-inf, which is not NaN).
  ``np.isnan`` of anything that is not syntactically such a quotient is
  Untranslatable (fail closed).
* ``rgb_from_polar_coordinates``: ``np.mod(azimuth/(2 pi), 1)``, the call of
  ``hsl_to_hsv`` and the final ``mcolors.hsv_to_rgb(np.stack((h, s, v), axis=-1))``;
  matplotlib's function is a PARAMETER ``hsv2rgb`` of the generated definition
  (the reference definition lives in Model/C08Model.v and is differentially
  tested against matplotlib on every run).
* ``DirectionColorKeyTSL.direction2color``: symbolic execution of the body with
  ``direction.in_fundamental_sector(self.symmetry)`` and
  ``polar_coordinates_in_sector(self.symmetry.fundamental_sector, h)`` as opaque
  calls whose ARGUMENTS are checked; what is emitted is the map
  (azimuth, polar) -> colour, i.e. the lightness formula ``0.5 + polar / 2`` and
  the call of ``rgb_from_polar_coordinates``.
* structural checks (inlining of local names, then comparison of the returned
  expression): ``IPFColorKeyTSL.orientation2color`` returns
  ``self.direction_color_key.direction2color(orientation * self.direction)``,
  ``direction_color_key`` is ``DirectionColorKeyTSL(self.symmetry)``, and both
  constructors pass ``symmetry.laue`` to the base class.
"""
import ast
import copy
import os
import sys

sys.path.insert(0, os.path.dirname(os.path.abspath(__file__)))
from pytrans import (HEADER, Arr, Bo, Const, ConstF, Sc, Translator, TupleV,  # noqa: E402
                     Untranslatable, find_function)


class Opaque:
    """result of a call the model treats as a black box (checked by name)"""

    def __init__(self, tag):
        self.tag = tag


class ColorTranslator(Translator):
    def __init__(self, fname, **kw):
        super().__init__(fname, **kw)
        self.quot = {}      # code of a quotient -> (num code, den code)
        self.hsv_param = False

    def binop(self, op, a, b, node):
        r = super().binop(op, a, b, node)
        if isinstance(op, ast.Div) and isinstance(r, Sc) and not isinstance(a, Arr) and not isinstance(b, Arr):
            self.quot[r.code] = (self.sc(a, node), self.sc(b, node))
        return r

    def letbind(self, name, val, lets):
        # a let-bound quotient is still that quotient
        if isinstance(val, Sc) and val.code in self.quot:
            q = self.quot[val.code]
            r = super().letbind(name, val, lets)
            self.quot[r.code] = q
            return r
        return super().letbind(name, val, lets)

    def isnan(self, x, node):
        if isinstance(x, Arr):
            return Arr([self.isnan(y, node) for y in x.items])
        if isinstance(x, Sc) and x.code in self.quot:
            n, d = self.quot[x.code]
            return Bo(f"(o_eqb O {n} (o_ofZ O (0)) && o_eqb O {d} (o_ofZ O (0)))")
        self.err("np.isnan of something that is not a quotient a / b", node)

    def expr(self, node, env):
        if isinstance(node, ast.Attribute):
            d = self.dotted(node)
            if d in env:
                return env[d]
        return super().expr(node, env)

    def call(self, node, env):
        d = self.dotted(node.func)
        kw = {k.arg: k.value for k in node.keywords}
        if d == "np.where" and len(node.args) == 3 and not kw:
            c = self.expr(node.args[0], env)
            a = self.expr(node.args[1], env)
            b = self.expr(node.args[2], env)
            if isinstance(c, Arr):
                a, b = self.as_arr(a, node), self.as_arr(b, node)
                n = len(c)

                def pick(x, i):
                    return x.items[i] if len(x) == n else x.items[0]
                return Arr([self.merge(c.items[i], pick(a, i), pick(b, i), node) for i in range(n)])
            return self.merge(c, a, b, node)
        if d == "np.isnan" and len(node.args) == 1 and not kw:
            return self.isnan(self.expr(node.args[0], env), node)
        if d == "np.stack":
            ax = kw.get("axis")
            if not (isinstance(ax, ast.UnaryOp) and isinstance(ax.op, ast.USub)
                    and isinstance(ax.operand, ast.Constant) and ax.operand.value == 1):
                self.err("np.stack must use axis=-1", node)
            v = self.expr(node.args[0], env)
            if not isinstance(v, (TupleV, Arr)):
                self.err("stack of non-sequence", node)
            return Arr([self.scalarize(x, node) for x in v.items])
        if d == "mcolors.hsv_to_rgb" and len(node.args) == 1 and not kw:
            v = self.expr(node.args[0], env)
            if not (isinstance(v, Arr) and len(v) == 3):
                self.err("hsv_to_rgb needs (h, s, v)", node)
            self.hsv_param = True
            code = "(hsv2rgb " + " ".join(self.sc(x, node) for x in v.items) + ")"
            return self.unpack_ret(code, ("arr", 3))
        if d in self.known and self.known[d][0].endswith("!hsv"):
            # generated definition that takes the hsv2rgb parameter
            coqname, argshapes, ret = self.known[d]
            args = [self.expr(a, env) for a in node.args]
            flat = []
            for a in args:
                flat.extend(self.sc(x, node) for x in self.flat(self.as_arr(a, node)))
            self.hsv_param = True
            return self.unpack_ret(f"({coqname[:-4]} O hsv2rgb " + " ".join(flat) + ")", ret)
        return super().call(node, env)

    def ret_code(self, v, node):
        def squeeze(x):
            if isinstance(x, (Arr, TupleV)) and len(x.items) == 1:
                return squeeze(x.items[0])
            if isinstance(x, TupleV):
                return TupleV([squeeze(y) for y in x.items])
            return x
        return super().ret_code(squeeze(v), node)


def synth(fn, body=None):
    new = copy.deepcopy(fn)
    new.args.args = []
    new.args.defaults = []
    if body is not None:
        new.body = body
    return new


def strip_doc(body):
    if body and isinstance(body[0], ast.Expr) and isinstance(body[0].value, ast.Constant):
        return body[1:]
    return body


class Inline(ast.NodeTransformer):
    def __init__(self, env):
        self.env = env

    def visit_Name(self, node):
        if isinstance(node.ctx, ast.Load) and node.id in self.env:
            return copy.deepcopy(self.env[node.id])
        return node


def returned_expr(fn, rel):
    """straight-line body of simple `name = expr` assignments and one final
    return: the returned expression with the local names inlined (unparsed)"""
    env = {}
    body = strip_doc(fn.body)
    for st in body[:-1]:
        if isinstance(st, ast.Expr) and isinstance(st.value, ast.Constant):
            continue
        if not (isinstance(st, ast.Assign) and len(st.targets) == 1 and isinstance(st.targets[0], ast.Name)):
            raise Untranslatable(f"{fn.name}: statement is not a simple assignment: {ast.unparse(st)}", st, rel)
        env[st.targets[0].id] = Inline(env).visit(copy.deepcopy(st.value))
    last = body[-1]
    if not isinstance(last, ast.Return) or last.value is None:
        raise Untranslatable(f"{fn.name}: does not end with return <expr>", last, rel)
    return ast.unparse(Inline(env).visit(copy.deepcopy(last.value)))


def klass(tree, name, rel):
    for n in tree.body:
        if isinstance(n, ast.ClassDef) and n.name == name:
            return n
    raise Untranslatable(f"class {name} not found", None, rel)


def method(cls, name, rel):
    for n in cls.body:
        if isinstance(n, ast.FunctionDef) and n.name == name:
            return n
    raise Untranslatable(f"{cls.name}.{name} not found", None, rel)


def unit_c08color(repo):
    rel = "orix/plot/direction_color_keys/_util.py"
    text = HEADER.format(src=rel + ", direction_color_key_tsl.py, ipf_color_key_tsl.py")
    tree = ast.parse(open(os.path.join(repo, rel)).read())

    # ------------------------------------------------------------ hsl_to_hsv
    fn = find_function(tree, "hsl_to_hsv")
    if fn is None:
        raise Untranslatable("function hsl_to_hsv not found", None, rel)
    names = [a.arg for a in fn.args.args]
    if names != ["hue", "saturation", "lightness"]:
        raise Untranslatable(f"hsl_to_hsv signature changed: {names}", fn, rel)
    tr = ColorTranslator(rel)
    env = {n: Arr([Sc(n)]) for n in names}
    t, _, ret = tr.function(synth(fn), coqname="hsl_to_hsv", extra_env=env)
    if ret != ("arr", 3):
        raise Untranslatable(f"hsl_to_hsv returns {ret}, expected (hue, saturation2, value)", fn, rel)
    t = t.replace("(O : Ops T) ( : T)", "(O : Ops T) (hue saturation lightness : T)", 1)
    text += "\n(* hsl_to_hsv on one element *)\n" + t

    # -------------------------------------------- rgb_from_polar_coordinates
    fn = find_function(tree, "rgb_from_polar_coordinates")
    if fn is None:
        raise Untranslatable("function rgb_from_polar_coordinates not found", None, rel)
    names = [a.arg for a in fn.args.args]
    if names != ["azimuth", "polar"]:
        raise Untranslatable(f"rgb_from_polar_coordinates signature changed: {names}", fn, rel)
    tr = ColorTranslator(rel, known={"hsl_to_hsv": ("hsl_to_hsv", [0, 0, 0], ("arr", 3))})
    env = {n: Arr([Sc(n)]) for n in names}
    t, _, ret = tr.function(synth(fn), coqname="rgb_from_polar_coordinates", extra_env=env)
    if ret != ("arr", 3) or not tr.hsv_param:
        raise Untranslatable("rgb_from_polar_coordinates does not end in mcolors.hsv_to_rgb", fn, rel)
    t = t.replace("(O : Ops T) ( : T)",
                  "(O : Ops T) (hsv2rgb : T -> T -> T -> (T * T * T)%type) (azimuth polar : T)", 1)
    text += "\n(* rgb_from_polar_coordinates on one element; matplotlib's hsv_to_rgb is the parameter hsv2rgb *)\n" + t

    # ----------------------------------------------- direction2color (TSL)
    rel2 = "orix/plot/direction_color_keys/direction_color_key_tsl.py"
    tree2 = ast.parse(open(os.path.join(repo, rel2)).read())
    cls = klass(tree2, "DirectionColorKeyTSL", rel2)
    fn = method(cls, "direction2color", rel2)
    if [a.arg for a in fn.args.args] != ["self", "direction"]:
        raise Untranslatable("direction2color signature changed", fn, rel2)

    class D2C(ColorTranslator):
        def call(self, node, env):
            d = self.dotted(node.func)
            if d == "direction.in_fundamental_sector":
                a = [ast.unparse(x) for x in node.args]
                arg = self.expr(node.args[0], env) if len(node.args) == 1 else None
                if not (isinstance(arg, Opaque) and arg.tag == "laue"):
                    self.err(f"in_fundamental_sector is not called with self.symmetry: {a}", node)
                return Opaque("h")
            if d == "polar_coordinates_in_sector":
                if len(node.args) != 2 or node.keywords:
                    self.err("polar_coordinates_in_sector arguments", node)
                s = self.expr(node.args[0], env)
                h = self.expr(node.args[1], env)
                if not (isinstance(s, Opaque) and s.tag == "laue.fs" and isinstance(h, Opaque) and h.tag == "h"):
                    self.err("polar_coordinates_in_sector is not called with (self.symmetry.fundamental_sector, "
                             "direction.in_fundamental_sector(self.symmetry))", node)
                return TupleV([Arr([Sc("azimuth")]), Arr([Sc("polar")])])
            return super().call(node, env)

        def expr(self, node, env):
            if isinstance(node, ast.Attribute):
                d = self.dotted(node)
                if d == "self.symmetry":
                    return Opaque("laue")
                if node.attr == "fundamental_sector":
                    b = self.expr(node.value, env)
                    if isinstance(b, Opaque) and b.tag == "laue":
                        return Opaque("laue.fs")
            return super().expr(node, env)

    tr = D2C(rel2, known={"rgb_from_polar_coordinates": ("rgb_from_polar_coordinates!hsv", [0, 0], ("arr", 3))})
    t, _, ret = tr.function(synth(fn), coqname="direction2color_k", extra_env={})
    if ret != ("arr", 3):
        raise Untranslatable(f"direction2color returns {ret}", fn, rel2)
    t = t.replace("(O : Ops T) ( : T)",
                  "(O : Ops T) (hsv2rgb : T -> T -> T -> (T * T * T)%type) (azimuth polar : T)", 1)
    text += ("\n(* DirectionColorKeyTSL.direction2color after\n"
             "     h = direction.in_fundamental_sector(self.symmetry)\n"
             "     azimuth, polar = polar_coordinates_in_sector(self.symmetry.fundamental_sector, h)\n"
             "   (both calls checked): the map (azimuth, polar) -> colour *)\n" + t)

    ini = method(cls, "__init__", rel2)
    got = returned_expr_init(ini, rel2)
    if got != "super().__init__(symmetry.laue)":
        raise Untranslatable(f"DirectionColorKeyTSL.__init__ no longer passes symmetry.laue: {got}", ini, rel2)

    # ------------------------------------------ orientation2color structure
    rel3 = "orix/plot/orientation_color_keys/ipf_color_key_tsl.py"
    tree3 = ast.parse(open(os.path.join(repo, rel3)).read())
    cls3 = klass(tree3, "IPFColorKeyTSL", rel3)
    got = returned_expr(method(cls3, "orientation2color", rel3), rel3)
    if got != "self.direction_color_key.direction2color(orientation * self.direction)":
        raise Untranslatable(f"orientation2color is no longer direction2color(orientation * direction): {got}",
                             cls3, rel3)
    got = returned_expr(method(cls3, "direction_color_key", rel3), rel3)
    if got != "DirectionColorKeyTSL(self.symmetry)":
        raise Untranslatable(f"direction_color_key changed: {got}", cls3, rel3)
    got = returned_expr_init(method(cls3, "__init__", rel3), rel3)
    if got != "super().__init__(symmetry.laue, direction=direction)":
        raise Untranslatable(f"IPFColorKeyTSL.__init__ no longer passes symmetry.laue: {got}", cls3, rel3)
    rel4 = "orix/plot/orientation_color_keys/ipf_color_key.py"
    tree4 = ast.parse(open(os.path.join(repo, rel4)).read())
    ini = method(klass(tree4, "IPFColorKey", rel4), "__init__", rel4)
    src = [ast.unparse(s) for s in strip_doc(ini.body)]
    want = ["self.symmetry = symmetry", "if direction is None:\n    direction = Vector3d.zvector()",
            "self.direction = direction"]
    if src != want:
        raise Untranslatable(f"IPFColorKey.__init__ changed: {src}", ini, rel4)
    text += ("\n(* structural checks passed:\n"
             "   IPFColorKeyTSL.orientation2color = self.direction_color_key.direction2color(orientation * self.direction);\n"
             "   direction_color_key = DirectionColorKeyTSL(self.symmetry); both constructors use symmetry.laue;\n"
             "   default sample direction = Vector3d.zvector() *)\n")
    return "C08Color.v", text


def returned_expr_init(fn, rel):
    """__init__ bodies: local assignments then one expression statement (the super call)"""
    env = {}
    body = strip_doc(fn.body)
    for st in body[:-1]:
        if not (isinstance(st, ast.Assign) and len(st.targets) == 1 and isinstance(st.targets[0], ast.Name)):
            raise Untranslatable(f"{fn.name}: statement is not a simple assignment: {ast.unparse(st)}", st, rel)
        env[st.targets[0].id] = Inline(env).visit(copy.deepcopy(st.value))
    last = body[-1]
    if not isinstance(last, ast.Expr):
        raise Untranslatable(f"{fn.name}: last statement is not a call", last, rel)
    return ast.unparse(Inline(env).visit(copy.deepcopy(last.value)))


UNITS = {"c08color": unit_c08color}
