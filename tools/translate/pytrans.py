"""Fail-closed translator from a small Python/NumPy subset to Gallina over
``Ops T`` (coq/Base/Scalar.v).

The translator *symbolically executes* the body of a function whose arguments
are scalars / small fixed-size arrays and emits one Coq ``Definition``.  It is
run from /repo's working tree on every check, so the theorems in coq/Proofs
are re-checked against what the source says now.

Anything outside the accepted subset raises ``Untranslatable`` (never skipped).
"""
from __future__ import annotations

import ast
import copy
from fractions import Fraction


class Untranslatable(Exception):
    def __init__(self, msg, node=None, fname="?"):
        line = getattr(node, "lineno", "?")
        super().__init__(f"{fname}:{line}: {msg}")


# ---------------------------------------------------------------- values
class Sc:
    """scalar of type T; code is an atomic/parenthesised Coq expression"""

    def __init__(self, code):
        self.code = code


class Bo:
    """boolean Coq expression"""

    def __init__(self, code):
        self.code = code


class IntE:
    """Coq expression of type Z (symbolic python int)"""

    def __init__(self, code):
        self.code = code


class Const:
    """python-level exact constant (int or Fraction); kept symbolic as long as
    possible so that 2/3, 1/6 ... stay exact"""

    def __init__(self, v):
        self.v = Fraction(v)


class ConstF:
    """python float literal; exact decimal value of its repr"""

    def __init__(self, f):
        self.v = Fraction(repr(float(f))) if not isinstance(f, Fraction) else f


class Inf:
    pass


class Arr:
    def __init__(self, items):
        self.items = list(items)

    def __len__(self):
        return len(self.items)


class TupleV:
    def __init__(self, items):
        self.items = list(items)


class Returned(Exception):
    pass


def tuple_code(items):
    """nested-pair encoding (a, b, c) of Coq"""
    return "(" + ", ".join(items) + ")"


def proj_code(t, i, n):
    """i-th component of the n-tuple expression t; Coq tuples are left-nested:
    (x0, x1, ..., x_{n-1}) = (((x0, x1), x2), ..., x_{n-1})"""
    if n == 1:
        return t
    code = t
    if i == 0:
        for _ in range(n - 1):
            code = f"(fst {code})"
        return code
    for _ in range(n - 1 - i):
        code = f"(fst {code})"
    return f"(snd {code})"


class Translator:
    def __init__(self, fname, consts=None, known=None, argspec=None):
        self.fname = fname
        self.consts = consts or {}  # dotted name -> python float
        self.known = known if known is not None else {}  # func name -> (coqname, ret shape)
        self.argspec = argspec or {}
        self.fresh = 0

    # ------------------------------------------------------------ helpers
    def err(self, msg, node=None):
        raise Untranslatable(msg, node, self.fname)

    def sc(self, v, node=None):
        """coerce to scalar code"""
        if isinstance(v, Sc):
            return v.code
        if isinstance(v, Const):
            f = v.v
            if f.denominator == 1:
                return f"(o_ofZ O ({f.numerator}))"
            return f"(o_ofQ O ({f.numerator}) {f.denominator})"
        if isinstance(v, ConstF):
            f = v.v
            if f.denominator == 1:
                return f"(o_ofZ O ({f.numerator}))"
            return f"(o_ofQ O ({f.numerator}) {f.denominator})"
        if isinstance(v, Inf):
            return "(o_inf O)"
        if isinstance(v, IntE):
            self.err("integer expression used as scalar", node)
        if isinstance(v, Arr) and len(v) == 1:
            return self.sc(v.items[0], node)
        self.err(f"expected scalar, got {type(v).__name__}", node)

    def is_num(self, v):
        return isinstance(v, (Sc, Const, ConstF, Inf))

    def map1(self, f, v):
        if isinstance(v, Arr):
            return Arr([self.map1(f, x) for x in v.items])
        return f(v)

    def map2(self, f, a, b, node=None):
        if isinstance(a, Arr) and isinstance(b, Arr):
            if len(a) == len(b):
                return Arr([self.map2(f, x, y, node) for x, y in zip(a.items, b.items)])
            if len(b) == 1:
                return Arr([self.map2(f, x, b.items[0], node) for x in a.items])
            if len(a) == 1:
                return Arr([self.map2(f, a.items[0], y, node) for y in b.items])
            self.err("shape mismatch", node)
        if isinstance(a, Arr):
            return Arr([self.map2(f, x, b, node) for x in a.items])
        if isinstance(b, Arr):
            return Arr([self.map2(f, a, y, node) for y in b.items])
        return f(a, b)

    def flat(self, v):
        if isinstance(v, Arr):
            out = []
            for x in v.items:
                out.extend(self.flat(x))
            return out
        return [v]

    # ------------------------------------------------------- arithmetic
    def binop(self, op, a, b, node):
        if isinstance(a, Arr) or isinstance(b, Arr):
            return self.map2(lambda x, y: self.binop(op, x, y, node), a, b, node)
        # exact constant folding
        if isinstance(a, Const) and isinstance(b, Const):
            if isinstance(op, ast.Add):
                return Const(a.v + b.v)
            if isinstance(op, ast.Sub):
                return Const(a.v - b.v)
            if isinstance(op, ast.Mult):
                return Const(a.v * b.v)
            if isinstance(op, ast.Div):
                if b.v == 0:
                    self.err("constant division by zero", node)
                return Const(a.v / b.v)
            if isinstance(op, ast.Pow) and b.v.denominator == 1 and b.v >= 0:
                return Const(a.v ** int(b.v))
        if isinstance(op, ast.Pow):
            if isinstance(b, Const):
                e = b.v
                if e.denominator == 1 and 0 <= e <= 8:
                    return Sc(f"(o_powN O {self.sc(a, node)} {int(e)})")
                if e > 0:
                    return Sc(f"(o_rpow O {self.sc(a, node)} ({e.numerator}) {e.denominator})")
            if isinstance(b, ConstF) and b.v == Fraction(1, 2):
                return Sc(f"(o_sqrt O {self.sc(a, node)})")
            self.err("unsupported power", node)
        if not (self.is_num(a) and self.is_num(b)):
            self.err(f"arithmetic on {type(a).__name__},{type(b).__name__}", node)
        x, y = self.sc(a, node), self.sc(b, node)
        if isinstance(op, ast.Add):
            return Sc(f"(o_add O {x} {y})")
        if isinstance(op, ast.Sub):
            return Sc(f"(o_sub O {x} {y})")
        if isinstance(op, ast.Mult):
            return Sc(f"(o_mul O {x} {y})")
        if isinstance(op, ast.Div):
            return Sc(f"(o_div O {x} {y})")
        self.err(f"unsupported operator {type(op).__name__}", node)

    def neg(self, v, node):
        if isinstance(v, Arr):
            return self.map1(lambda x: self.neg(x, node), v)
        if isinstance(v, Const):
            return Const(-v.v)
        if isinstance(v, ConstF):
            return ConstF(-v.v)
        return Sc(f"(o_opp O {self.sc(v, node)})")

    def un(self, name, v, node):
        if isinstance(v, Arr):
            return self.map1(lambda x: self.un(name, x, node), v)
        return Sc(f"({name} O {self.sc(v, node)})")

    def compare(self, op, a, b, node):
        if isinstance(a, Arr) or isinstance(b, Arr):
            return self.map2(lambda x, y: self.compare(op, x, y, node), a, b, node)
        if isinstance(a, IntE) or isinstance(b, IntE):
            x = a.code if isinstance(a, IntE) else f"({int(a.v)})%Z"
            y = b.code if isinstance(b, IntE) else f"({int(b.v)})%Z"
            if isinstance(op, ast.Eq):
                return Bo(f"(Z.eqb {x} {y})")
            self.err("unsupported integer comparison", node)
        if isinstance(a, (Const, ConstF)) and isinstance(b, (Const, ConstF)):
            self.err("constant comparison", node)
        x, y = self.sc(a, node), self.sc(b, node)
        if isinstance(op, ast.Lt):
            return Bo(f"(o_ltb O {x} {y})")
        if isinstance(op, ast.LtE):
            return Bo(f"(o_leb O {x} {y})")
        if isinstance(op, ast.Gt):
            return Bo(f"(o_ltb O {y} {x})")
        if isinstance(op, ast.GtE):
            return Bo(f"(o_leb O {y} {x})")
        if isinstance(op, ast.Eq):
            return Bo(f"(o_eqb O {x} {y})")
        if isinstance(op, ast.NotEq):
            return Bo(f"(negb (o_eqb O {x} {y}))")
        self.err("unsupported comparison", node)

    def fold(self, f, items):
        acc = items[0]
        for x in items[1:]:
            acc = f(acc, x)
        return acc

    # ------------------------------------------------------ expressions
    def dotted(self, node):
        if isinstance(node, ast.Name):
            return node.id
        if isinstance(node, ast.Attribute):
            b = self.dotted(node.value)
            return None if b is None else b + "." + node.attr
        return None

    def pyint(self, node, env):
        """evaluate a python-level integer (indices, loop bounds)"""
        v = self.expr(node, env)
        if isinstance(v, Const) and v.v.denominator == 1:
            return int(v.v)
        self.err("expected a python integer constant", node)

    def expr(self, node, env):
        if isinstance(node, ast.Constant):
            if isinstance(node.value, bool):
                return Bo("true" if node.value else "false")
            if isinstance(node.value, int):
                return Const(node.value)
            if isinstance(node.value, float):
                return ConstF(node.value)
            self.err("constant", node)
        if isinstance(node, ast.Name):
            if node.id in env:
                return env[node.id]
            self.err(f"unknown name {node.id}", node)
        if isinstance(node, ast.Attribute):
            d = self.dotted(node)
            if d in ("np.pi", "math.pi"):
                return Sc("(o_pi O)")
            if d in ("np.inf",):
                return Inf()
            if d in self.consts:
                return ConstF(self.consts[d])
            if d in ("np.float64",):
                return None
            self.err(f"unknown attribute {d}", node)
        if isinstance(node, ast.UnaryOp):
            v = self.expr(node.operand, env)
            if isinstance(node.op, ast.USub):
                return self.neg(v, node)
            if isinstance(node.op, ast.UAdd):
                return v
            if isinstance(node.op, ast.Not) and isinstance(v, Bo):
                return Bo(f"(negb {v.code})")
            self.err("unary op", node)
        if isinstance(node, ast.BinOp):
            return self.binop(node.op, self.expr(node.left, env), self.expr(node.right, env), node)
        if isinstance(node, ast.BoolOp):
            vs = [self.expr(v, env) for v in node.values]
            if not all(isinstance(v, Bo) for v in vs):
                self.err("boolean operator on non-booleans", node)
            j = "&&" if isinstance(node.op, ast.And) else "||"
            return Bo("(" + f" {j} ".join(v.code for v in vs) + ")")
        if isinstance(node, ast.Compare):
            left = self.expr(node.left, env)
            res = None
            for op, rn in zip(node.ops, node.comparators):
                if isinstance(op, ast.In):
                    if not isinstance(rn, (ast.List, ast.Tuple)):
                        self.err("'in' needs a literal list", node)
                    alts = [self.compare(ast.Eq(), left, self.expr(e, env), node) for e in rn.elts]
                    r = Bo("(" + " || ".join(a.code for a in alts) + ")")
                else:
                    right = self.expr(rn, env)
                    r = self.compare(op, left, right, node)
                    left = right
                if isinstance(r, Arr):
                    if res is not None:
                        self.err("chained array comparison", node)
                    res = r
                else:
                    res = r if res is None else Bo(f"({res.code} && {r.code})")
            return res
        if isinstance(node, ast.Tuple) or isinstance(node, ast.List):
            return TupleV([self.expr(e, env) for e in node.elts])
        if isinstance(node, ast.Subscript):
            return self.subscript(node, env)
        if isinstance(node, ast.Call):
            return self.call(node, env)
        if isinstance(node, ast.IfExp):
            c = self.expr(node.test, env)
            return self.merge(c, self.expr(node.body, env), self.expr(node.orelse, env), node)
        self.err(f"unsupported expression {type(node).__name__}", node)

    def index_of(self, sl, n, env):
        """python index/slice -> list of positions"""
        if isinstance(sl, ast.Slice):
            lo = 0 if sl.lower is None else self.pyint(sl.lower, env)
            hi = n if sl.upper is None else self.pyint(sl.upper, env)
            st = 1 if sl.step is None else self.pyint(sl.step, env)
            return list(range(n))[slice(lo, hi, st)], True
        i = self.pyint(sl, env)
        if not -n <= i < n:
            self.err("index out of range", sl)
        return [i % n], False

    def subscript(self, node, env):
        base = self.expr(node.value, env)
        if isinstance(base, TupleV):
            base = Arr(base.items)
        if not isinstance(base, Arr):
            self.err("subscript of non-array", node)
        sl = node.slice
        if isinstance(sl, ast.Tuple):
            cur = base
            for s in sl.elts:
                idx, is_slice = self.index_of(s, len(cur), env)
                if is_slice:
                    self.err("slice inside multi-index", node)
                cur = cur.items[idx[0]]
            return cur
        idx, is_slice = self.index_of(sl, len(base), env)
        if is_slice:
            return Arr([base.items[i] for i in idx])
        return base.items[idx[0]]

    def as_arr(self, v, node):
        if isinstance(v, Arr):
            return v
        if isinstance(v, TupleV):
            return Arr([self.as_arr(x, node) if isinstance(x, TupleV) else x for x in v.items])
        return Arr([v])

    def call(self, node, env):
        d = self.dotted(node.func)
        args = [self.expr(a, env) for a in node.args]
        kw = {k.arg: k.value for k in node.keywords}
        for k in kw:
            if k not in ("dtype", "axis"):
                self.err(f"keyword {k}", node)
        un = {"np.cos": "o_cos", "np.sin": "o_sin", "np.tan": "o_tan", "np.sqrt": "o_sqrt",
              "np.arccos": "o_acos", "np.arctan": "o_atan", "np.abs": "o_abs", "abs": "o_abs",
              "np.fabs": "o_abs", "math.sqrt": "o_sqrt", "math.cos": "o_cos", "math.sin": "o_sin"}
        if d in un:
            return self.un(un[d], args[0], node)
        if d == "np.square":
            return self.map1(lambda x: Sc(f"(o_powN O {self.sc(x, node)} 2)"), args[0])
        if d == "np.arctan2":
            return self.map2(lambda y, x: Sc(f"(o_atan2 O {self.sc(y, node)} {self.sc(x, node)})"),
                             args[0], args[1], node)
        if d == "np.mod":
            return self.map2(lambda x, y: Sc(f"(o_fmod O {self.sc(x, node)} {self.sc(y, node)})"),
                             args[0], args[1], node)
        if d == "np.add":
            return self.binop(ast.Add(), args[0], args[1], node)
        if d == "np.subtract":
            return self.binop(ast.Sub(), args[0], args[1], node)
        if d == "np.multiply":
            return self.binop(ast.Mult(), args[0], args[1], node)
        if d == "np.divide" and not kw:
            return self.binop(ast.Div(), args[0], args[1], node)
        if d in ("np.sum", "np.max", "np.min"):
            a = self.as_arr(args[0], node)
            items = self.flat(a)
            if any(isinstance(x, Arr) for x in a.items) and "axis" in kw:
                self.err("axis reduction of 2-d array", node)
            if d == "np.sum":
                return self.fold(lambda x, y: self.binop(ast.Add(), x, y, node), items)
            nm = "o_max" if d == "np.max" else "o_min"
            return self.fold(lambda x, y: Sc(f"({nm} O {self.sc(x, node)} {self.sc(y, node)})"), items)
        if d == "np.isinf":
            return self.map1(lambda x: Bo(f"(o_isinf O {self.sc(x, node)})"), args[0])
        if d == "np.zeros":
            shp = args[0]
            if isinstance(shp, Const):
                return Arr([Const(0) for _ in range(int(shp.v))])
            if isinstance(shp, TupleV) and all(isinstance(s, Const) for s in shp.items):
                dims = [int(s.v) for s in shp.items]

                def mk(ds):
                    if len(ds) == 1:
                        return Arr([Const(0) for _ in range(ds[0])])
                    return Arr([mk(ds[1:]) for _ in range(ds[0])])
                return mk(dims)
            self.err("np.zeros shape", node)
        if d == "np.array":
            v = args[0]
            if isinstance(v, TupleV):
                return self.as_arr(v, node)
            return v  # np.array(scalar) is that scalar
        if d == "np.append":
            return Arr(self.as_arr(args[0], node).items + self.as_arr(args[1], node).items)
        if d == "np.roll":
            a = self.as_arr(args[0], node)
            if not isinstance(args[1], Const):
                self.err("np.roll shift must be constant", node)
            k = int(args[1].v) % len(a)
            items = a.items
            return Arr(items[-k:] + items[:-k]) if k else Arr(items)
        if d in self.known:
            coqname, argshapes, ret = self.known[d]
            flatargs = []
            for a in args:
                flatargs.extend(self.sc(x, node) for x in self.flat(self.as_arr(a, node)))
            callc = f"({coqname} O " + " ".join(flatargs) + ")"
            return self.unpack_ret(callc, ret)
        self.err(f"call to {d} not in whitelist", node)

    def unpack_ret(self, code, ret):
        if ret == "int":
            return IntE(code)
        if ret == "scalar":
            return Sc(code)
        if ret[0] == "arr":
            n = ret[1]
            return Arr([Sc(proj_code(code, i, n)) for i in range(n)])
        if ret[0] == "mat":
            r, c = ret[1], ret[2]
            return Arr([Arr([Sc(proj_code(proj_code(code, i, r), j, c)) for j in range(c)])
                        for i in range(r)])
        raise AssertionError(ret)

    # --------------------------------------------------------- merging
    def merge(self, c, a, b, node):
        if not isinstance(c, Bo):
            self.err("condition is not boolean", node)
        if isinstance(a, Arr) or isinstance(b, Arr):
            a, b = self.as_arr(a, node), self.as_arr(b, node)
            if len(a) != len(b):
                self.err("merging arrays of different length", node)
            return Arr([self.merge(c, x, y, node) for x, y in zip(a.items, b.items)])
        if type(a) is type(b) and isinstance(a, (Sc, Bo, IntE)) and a.code == b.code:
            return a
        if isinstance(a, Bo) and isinstance(b, Bo):
            return Bo(f"(if {c.code} then {a.code} else {b.code})")
        if isinstance(a, IntE) or isinstance(b, IntE):
            x = a.code if isinstance(a, IntE) else f"({int(a.v)})%Z"
            y = b.code if isinstance(b, IntE) else f"({int(b.v)})%Z"
            return IntE(f"(if {c.code} then {x} else {y})")
        if isinstance(a, (Const, ConstF)) and isinstance(b, (Const, ConstF)) and a.v == b.v \
                and type(a) is type(b):
            return a
        return Sc(f"(if {c.code} then {self.sc(a, node)} else {self.sc(b, node)})")

    # ------------------------------------------------------- statements
    @staticmethod
    def has_return(stmts):
        for s in stmts:
            for n in ast.walk(s):
                if isinstance(n, ast.Return):
                    return True
        return False

    def assign(self, target, val, env, node):
        if isinstance(target, ast.Name):
            if isinstance(val, TupleV):
                val = self.as_arr(val, node)
            env[target.id] = val
            return
        if isinstance(target, (ast.Tuple, ast.List)):
            items = val.items if isinstance(val, (Arr, TupleV)) else None
            if items is None or len(items) != len(target.elts):
                self.err("tuple unpacking length", node)
            for t, v in zip(target.elts, items):
                self.assign(t, v, env, node)
            return
        if isinstance(target, ast.Subscript):
            if not isinstance(target.value, ast.Name) or target.value.id not in env:
                self.err("store into unknown array", node)
            name = target.value.id
            base = copy.deepcopy(env[name])
            if not isinstance(base, Arr):
                self.err("store into non-array", node)
            sl = target.slice
            if isinstance(sl, ast.Tuple):
                cur = base
                for s in sl.elts[:-1]:
                    idx, is_slice = self.index_of(s, len(cur), env)
                    if is_slice:
                        self.err("slice store", node)
                    cur = cur.items[idx[0]]
                idx, is_slice = self.index_of(sl.elts[-1], len(cur), env)
                if is_slice:
                    self.err("slice store", node)
                cur.items[idx[0]] = self.scalarize(val, node)
            elif isinstance(sl, (ast.Slice, ast.Constant, ast.UnaryOp, ast.Name)) and not (
                    isinstance(sl, ast.Name) and isinstance(env.get(sl.id), Arr)):
                idx, is_slice = self.index_of(sl, len(base), env)
                if is_slice:
                    v = self.as_arr(val, node)
                    if len(v) == 1:
                        v = Arr([v.items[0]] * len(idx))
                    if len(v) != len(idx):
                        self.err("slice store length", node)
                    for i, x in zip(idx, v.items):
                        base.items[i] = x
                else:
                    base.items[idx[0]] = self.scalarize(val, node)
            else:
                # boolean-mask store  a[mask] = value
                m = self.expr(sl, env)
                if not (isinstance(m, Arr) and len(m) == len(base) and
                        all(isinstance(x, Bo) for x in m.items)):
                    self.err("unsupported store index", node)
                v = self.scalarize(val, node)
                base = Arr([self.merge(c, v, x, node) for c, x in zip(m.items, base.items)])
            env[name] = base
            return
        self.err("assignment target", node)

    def scalarize(self, v, node):
        if isinstance(v, (Arr, TupleV)):
            if len(v.items) == 1:
                return self.scalarize(v.items[0], node)
            self.err("array stored into a scalar slot", node)
        return v

    def ret_code(self, v, node):
        """-> (coq code, shape)"""
        if isinstance(v, TupleV):
            v = TupleV([self.as_arr(x, node) if isinstance(x, TupleV) else x for x in v.items])
            if all(not isinstance(x, Arr) for x in v.items):
                v = Arr(v.items)
        if isinstance(v, IntE):
            return v.code, "int"
        if isinstance(v, Const) and self.ret_int:
            return f"({int(v.v)})%Z", "int"
        if isinstance(v, Arr):
            if all(isinstance(x, Arr) for x in v.items):
                rows = [tuple_code([self.sc(y, node) for y in x.items]) for x in v.items]
                return tuple_code(rows), ("mat", len(v.items), len(v.items[0]))
            return tuple_code([self.sc(x, node) for x in v.items]), ("arr", len(v.items))
        if isinstance(v, TupleV):
            parts = []
            for x in v.items:
                c, _ = self.ret_code(x, node)
                parts.append(c)
            return tuple_code(parts), ("tuple", len(parts))
        return self.sc(v, node), "scalar"

    def block(self, stmts, env, k):
        """Translate stmts under env; k(env) gives the code of what follows.
        Returns Coq code of the function result."""
        if not stmts:
            return k(env)
        s, rest = stmts[0], stmts[1:]
        if isinstance(s, ast.Expr) and isinstance(s.value, ast.Constant):
            return self.block(rest, env, k)  # docstring
        if isinstance(s, ast.Pass):
            return self.block(rest, env, k)
        if isinstance(s, ast.Return):
            if s.value is None:
                return k(env) if self.gufunc_out else self.err("bare return", s)
            code, shape = self.ret_code(self.expr(s.value, env), s)
            self.note_shape(shape, s)
            return code
        if isinstance(s, (ast.Assign, ast.AnnAssign)):
            targets = s.targets if isinstance(s, ast.Assign) else [s.target]
            val = self.expr(s.value, env)
            env = dict(env)
            lets = []
            if self.nolet == 0 and len(targets) == 1 and isinstance(targets[0], ast.Name):
                val = self.letbind(targets[0].id, val, lets)
            for t in targets:
                self.assign(t, val, env, s)
            body = self.block(rest, env, k)
            for name, code in reversed(lets):
                body = f"(let {name} : T := {code} in\n {body})"
            return body
        if isinstance(s, ast.AugAssign):
            cur = self.expr(s.target, env)
            val = self.binop(s.op, cur, self.expr(s.value, env), s)
            env = dict(env)
            self.assign(s.target, val, env, s)
            return self.block(rest, env, k)
        if isinstance(s, ast.For):
            it = s.iter
            d = self.dotted(it.func) if isinstance(it, ast.Call) else None
            if d not in ("range", "nb.prange", "prange") or not isinstance(s.target, ast.Name) or s.orelse:
                self.err("unsupported loop", s)
            bounds = [self.pyint(a, env) for a in it.args]
            if self.has_return(s.body):
                self.err("return inside loop", s)
            unrolled = []
            for i in range(*bounds):
                unrolled.append(ast.Assign(targets=[ast.Name(id=s.target.id, ctx=ast.Store())],
                                           value=ast.Constant(value=i), lineno=s.lineno))
                unrolled.extend(s.body)
            return self.block(unrolled + rest, env, k)
        if isinstance(s, ast.If):
            c = self.expr(s.test, env)
            if not isinstance(c, Bo):
                self.err("if-condition is not a boolean scalar", s)
            if self.has_return(s.body) or self.has_return(s.orelse) or (len(rest) <= 1 and self.nolet == 0):
                kk = lambda e: self.block(rest, e, k)
                t = self.block(s.body, dict(env), kk)
                e = self.block(s.orelse, dict(env), kk)
                return f"(if {c.code}\n then {t}\n else {e})"
            envs = []
            for body in (s.body, s.orelse):
                cap = {}

                def grab(e, cap=cap):
                    cap["env"] = e
                    return "<phi>"
                self.nolet += 1
                try:
                    self.block(body, dict(env), grab)
                finally:
                    self.nolet -= 1
                envs.append(cap["env"])
            et, ee = envs
            new = dict(env)
            for name in set(et) | set(ee):
                if name in et and name in ee:
                    if et[name] is ee[name]:
                        new[name] = et[name]
                    else:
                        new[name] = self.merge(c, et[name], ee[name], s)
                else:
                    new.pop(name, None)  # defined on one path only
            return self.block(rest, new, k)
        self.err(f"unsupported statement {type(s).__name__}", s)

    def letbind(self, name, val, lets):
        """share non-trivial scalar sub-terms through let-bindings"""
        if isinstance(val, Sc) and len(val.code) > 30:
            self.fresh += 1
            v = f"{name}_{self.fresh}"
            lets.append((v, val.code))
            return Sc(v)
        if isinstance(val, Arr):
            return Arr([self.letbind(name, x, lets) for x in val.items])
        return val

    @staticmethod
    def shape_type(shape):
        if shape == "int":
            return "Z"
        if shape == "scalar":
            return "T"
        if shape[0] == "arr":
            return "(" + " * ".join(["T"] * shape[1]) + ")%type"
        if shape[0] == "mat":
            row = "(" + " * ".join(["T"] * shape[2]) + ")"
            return "(" + " * ".join([row] * shape[1]) + ")%type"
        raise AssertionError(shape)

    def note_shape(self, shape, node):
        if self.ret_shape is None:
            self.ret_shape = shape
        elif self.ret_shape != shape:
            self.err(f"inconsistent return shapes {self.ret_shape} vs {shape}", node)

    # ---------------------------------------------------------- driver
    def function(self, fn: ast.FunctionDef, coqname=None, gufunc=False, ret_int=False,
                 extra_env=None):
        """Translate one function; returns (coq text, argshapes, ret shape)."""
        coqname = coqname or fn.name
        self.ret_shape = None
        self.nolet = 0
        self.ret_int = ret_int
        env = dict(extra_env or {})
        params = []
        argnames = [a.arg for a in fn.args.args]
        self.gufunc_out = argnames[-1] if gufunc else None
        argshapes = []
        for a in argnames:
            shp = self.argspec.get((fn.name, a), self.argspec.get(a))
            if shp is None:
                self.err(f"no shape known for argument {a} of {fn.name}", fn)
            argshapes.append(shp)
            if shp == 0:
                env[a] = Sc(a)
                if a != self.gufunc_out:
                    params.append(a)
            elif isinstance(shp, int):
                if a == self.gufunc_out:
                    env[a] = Arr([Const(0) for _ in range(shp)])
                else:
                    names = [f"{a}{i}" for i in range(shp)]
                    env[a] = Arr([Sc(n) for n in names])
                    params.extend(names)
            else:
                r, c = shp
                names = [[f"{a}{i}{j}" for j in range(c)] for i in range(r)]
                env[a] = Arr([Arr([Sc(n) for n in row]) for row in names])
                for row in names:
                    params.extend(row)

        def fallthrough(e):
            if self.gufunc_out:
                code, shape = self.ret_code(e[self.gufunc_out], fn)
                self.note_shape(shape, fn)
                return code
            self.err("function can fall off the end without return", fn)

        body = self.block(fn.body, env, fallthrough)
        text = (f"Definition {coqname} {{T}} (O : Ops T) ({' '.join(params)} : T) : "
                f"{self.shape_type(self.ret_shape)} :=\n  {body}.\n")
        return text, argshapes, self.ret_shape


HEADER = """(* GENERATED by tools/translate from {src} -- do not edit.
   Regenerated from /repo's working tree on every check. *)
From Coq Require Import ZArith Bool.
From Verif Require Import Scalar.
"""


def find_function(tree, name):
    for n in ast.walk(tree):
        if isinstance(n, ast.FunctionDef) and n.name == name:
            return n
    return None
