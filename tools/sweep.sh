#!/bin/bash
# run every claimed check (quick or $1) sequentially, summarise
tier=${1:-quick}
cd /verif
for p in $(python3 -c "import json;print(' '.join(c['property_id'] for c in json.load(open('MANIFEST.json'))['checks']))"); do
  s=$(date +%s)
  out=$(./check $p --tier $tier 2>&1); rc=$?
  e=$(( $(date +%s) - s ))
  echo "== $p rc=$rc ${e}s $(echo "$out" | grep -c '^KNOWN-FINDING') known, $(echo "$out" | grep -c '^VIOLATION') violations"
  echo "$out" | grep -E "^VIOLATION|^BROKEN|^FATAL|^ERROR|Traceback" | head -5
done
