#!/bin/bash
# For every seeded change: apply it to /repo, run the property's quick check, record what caught it, undo.
# Results: seeded/<name>/seedcheck.json   (usage: tools/seedcheck_all.sh [name ...])
cd /verif
names=${@:-$(ls seeded)}
for name in $names; do
  d=/verif/seeded/$name
  prop=$(python3 -c "import json;print(json.load(open('$d/meta.json'))['property'])")
  if ! git -C /repo apply --check $d/patch.diff 2>/dev/null; then
    python3 - "$d" <<'PY'
import json,sys
json.dump({"caught_by":"patch no longer applies to /repo HEAD (needs rebase)","exit":None},open(sys.argv[1]+"/seedcheck.json","w"),indent=1)
PY
    echo "$name: patch does not apply"; continue
  fi
  cp evidence/$prop.json /tmp/evidence_$prop.bak 2>/dev/null
  git -C /repo apply $d/patch.diff
  out=$(./check $prop --tier quick 2>&1); rc=$?
  git -C /repo checkout -- . ; cp /tmp/evidence_$prop.bak evidence/$prop.json 2>/dev/null
  python3 - "$d" "$rc" "$prop" <<PY
import json,sys,re,glob,subprocess
d,rc,prop=sys.argv[1],int(sys.argv[2]),sys.argv[3]
out='''$(echo "$out" | grep -E "^VIOLATION|^BROKEN-TIE" | head -40 | sed "s/'''/ /g")'''
sigs=[]
for line in out.split("\n"):
    m=re.match(r"VIOLATION property=\S+ replay=(\S+)",line)
    if m:
        try: sigs.append(json.load(open(m.group(1))).get("signature","tie"))
        except Exception: sigs.append("?")
broken=sorted(set(re.findall(r"BROKEN-TIE: property=\S+ (\w+):",out)))
head=subprocess.run(["git","-C","/repo","rev-parse","--short","HEAD"],capture_output=True,text=True).stdout.strip()
caught=[]
if sigs: caught.append("oracle replay(s): "+", ".join(sorted(set(map(str,sigs)))[:6]))
if broken: caught.append("broken tie: "+"/".join(broken))
if "no-failing-input-found" in out: caught.append("no-failing-input-found")
json.dump({"check":f"./check {prop} --tier quick","exit":rc,"repo_head":head,
           "caught_by":("; ".join(caught) if rc==1 else "NOT CAUGHT (exit %d)"%rc)},open(d+"/seedcheck.json","w"),indent=1)
print(d, rc, "; ".join(caught)[:200])
PY
done
