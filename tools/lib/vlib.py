"""Shared machinery for the per-property checks (see DESIGN.md section 5)."""
from __future__ import annotations

import fcntl
import glob
import hashlib
import json
import math
import os
import re
import shutil
import subprocess
import sys
import time

VERIF = os.path.abspath(os.path.join(os.path.dirname(__file__), "..", ".."))
COQ = os.path.join(VERIF, "coq")
BUILD = os.path.join(VERIF, "build")
REPO = os.environ.get("VERIF_REPO", "/repo")
PY = "/venv/bin/python"
NCPU = os.cpu_count() or 4

FORBIDDEN = re.compile(
    r"\b(Admitted|admit|Axiom|Axioms|Parameter|Parameters|Conjecture|Hypothesis|Variable|"
    r"Admit Obligations|bypass_check|native_compute)\b|Unset\s+Guard|Unset\s+Positivity|"
    r"Unset\s+Universe|type-in-type|impredicative-set")


def impl_env():
    env = dict(os.environ)
    env["PYTHONPATH"] = REPO
    env["PYTHONHASHSEED"] = "0"
    env["NUMBA_CACHE_DIR"] = os.path.join(BUILD, "numba")
    env["MPLBACKEND"] = "Agg"
    env["MPLCONFIGDIR"] = os.path.join(BUILD, "mpl")
    env["OMP_NUM_THREADS"] = "2"
    env["NUMBA_NUM_THREADS"] = "2"
    env["PYTHONWARNINGS"] = "ignore"
    env["ORIX_VERIF"] = "1"
    return env


class ImplCrash(RuntimeError):
    """the implementation-side harness died with an exception it does not handle: on the unchanged tree this does not
    happen, so the implementation no longer behaves as the harness (and the model) expect -- reported as a broken
    correspondence, not as a machinery error"""


def run_impl(script, payload, timeout=1500):
    """Run tools/impl/<script> on the implementation (/repo working tree) with a
    JSON payload on stdin; returns parsed JSON from stdout."""
    os.makedirs(os.path.join(BUILD, "numba"), exist_ok=True)
    path = script if os.path.isabs(script) else os.path.join(VERIF, "tools", "impl", script)
    p = subprocess.run([PY, path], input=json.dumps(payload), capture_output=True, text=True,
                       env=impl_env(), timeout=timeout, cwd=BUILD)
    if p.returncode != 0:
        raise ImplCrash(f"implementation harness {script} failed:\n{p.stderr[-4000:]}")
    out = p.stdout
    k = out.rfind("\n@@JSON@@")
    if k >= 0:
        out = out[k + 9:]
    return json.loads(out)


# ------------------------------------------------------------------ Coq text
def fhex(x):
    """python float -> Coq binary64 literal (bit exact)"""
    x = float(x)
    if math.isnan(x):
        return "nan"
    if math.isinf(x):
        return "infinity" if x > 0 else "neg_infinity"
    if x == 0:
        return "(-0)" if math.copysign(1, x) < 0 else "0"
    h = x.hex()
    neg = h.startswith("-")
    if neg:
        h = h[1:]
    m = re.match(r"0x([01])\.([0-9a-f]*)p([+-]\d+)", h)
    frac = m.group(2).rstrip("0")
    lit = f"0x{m.group(1)}" + (f".{frac}" if frac else "") + f"p{m.group(3)}"
    return f"(-{lit})" if neg else lit


def flist(xs):
    return "[" + "; ".join(fhex(x) for x in xs) + "]"


def zlit(n):
    n = int(n)
    return f"({n})" if n < 0 else str(n)


def zlist(xs):
    return "[" + "; ".join(zlit(x) for x in xs) + "]"


def blist(xs):
    return "[" + "; ".join("true" if x else "false" for x in xs) + "]"


# ------------------------------------------------------------------ building
class Lock:
    def __init__(self, name="coq"):
        os.makedirs(BUILD, exist_ok=True)
        self.path = os.path.join(BUILD, f".{name}.lock")

    def __enter__(self):
        self.f = open(self.path, "w")
        fcntl.flock(self.f, fcntl.LOCK_EX)
        return self

    def __exit__(self, *a):
        fcntl.flock(self.f, fcntl.LOCK_UN)
        self.f.close()


def sanity_grep():
    """forbidden constructs anywhere in the Coq development -> list of hits"""
    hits = []
    for path in glob.glob(os.path.join(COQ, "**", "*.v"), recursive=True):
        txt = open(path).read()
        txt = re.sub(r"\(\*.*?\*\)", "", txt, flags=re.S)
        for i, line in enumerate(txt.split("\n"), 1):
            if FORBIDDEN.search(line):
                # Section-local Variable/Hypothesis are allowed
                if re.search(r"\b(Variable|Hypothesis)\b", line) and not re.search(
                        r"\b(Admitted|admit|Axiom|Parameter|Conjecture)\b", line):
                    if in_section(txt, i):
                        continue
                hits.append(f"{os.path.relpath(path, VERIF)}:{i}: {line.strip()}")
    return hits


def in_section(txt, lineno):
    depth = 0
    for i, line in enumerate(txt.split("\n"), 1):
        if i >= lineno:
            break
        if re.match(r"\s*Section\s+\w+", line):
            depth += 1
        elif re.match(r"\s*End\s+\w+", line) and depth > 0:
            depth -= 1
    return depth > 0


def regen(units):
    """run the translator; returns (ok, message)"""
    p = subprocess.run([sys.executable, os.path.join(VERIF, "tools", "translate", "gen.py"),
                        "--repo", REPO] + list(units), capture_output=True, text=True)
    return p.returncode == 0, (p.stdout + p.stderr).strip()


def coq_makefile():
    files = []
    for sub in ("Base", "Gen", "Model", "Proofs", "Props"):
        files += sorted(glob.glob(os.path.join(COQ, sub, "*.v")))
    rel = [os.path.relpath(f, COQ) for f in files]
    proj = open(os.path.join(COQ, "_CoqProject")).read().split("\n")
    head = [l for l in proj if l.startswith("-")]
    new = "\n".join(head + rel) + "\n"
    pth = os.path.join(COQ, "_CoqProject")
    if open(pth).read() != new:
        open(pth, "w").write(new)
    mk = os.path.join(COQ, "Makefile")
    if (not os.path.exists(mk)) or os.path.getmtime(mk) < os.path.getmtime(pth):
        subprocess.run(["coq_makefile", "-f", "_CoqProject", "-o", "Makefile"], cwd=COQ,
                       check=True, capture_output=True)


def make(targets, timeout=1500, jobs=None):
    """full .vo build of the targets (relative to coq/), returns (ok, log)"""
    coq_makefile()
    cmd = ["timeout", str(timeout), "make", f"-j{jobs or NCPU}", "--no-print-directory"] + list(targets)
    p = subprocess.run(cmd, cwd=COQ, capture_output=True, text=True)
    return p.returncode == 0, p.stdout + p.stderr


def parse_failure(log):
    """-> short description of the first failing file / line from a make log"""
    m = re.search(r'File "\./([^"]+)", line (\d+), characters [^\n]*\n(?:.*\n)?Error:?([^\n]*(?:\n[^\n]+){0,6})', log)
    if m:
        return f"{m.group(1)}:{m.group(2)}: {m.group(3).strip()[:400]}"
    m = re.search(r"(?:Error|\*\*\*)[^\n]*", log)
    return m.group(0)[:400] if m else log[-400:]


def lemma_at(relpath, line):
    """name of the Lemma/Theorem enclosing a line of a coq file"""
    try:
        lines = open(os.path.join(COQ, relpath)).read().split("\n")
    except OSError:
        return None
    for i in range(min(int(line), len(lines)) - 1, -1, -1):
        m = re.match(r"\s*(?:Lemma|Theorem|Example|Corollary|Definition|Fact)\s+(\w+)", lines[i])
        if m:
            return m.group(1)
    return None


def vo_closure(vo):
    """all .vo files of the development that <vo> depends on (transitively, itself included), from coq_makefile's
    dependency file"""
    deps = {}
    txt = open(os.path.join(COQ, ".Makefile.d")).read().replace("\\\n", " ")
    for line in txt.splitlines():
        if ":" not in line:
            continue
        lhs, rhs = line.split(":", 1)
        tg = [t for t in lhs.split() if t.endswith(".vo")]
        ds = [d for d in rhs.split() if d.endswith(".vo")]
        for t in tg:
            deps.setdefault(t, set()).update(ds)
    seen, todo = [], [vo]
    while todo:
        v = todo.pop()
        if v in seen:
            continue
        seen.append(v)
        todo.extend(sorted(deps.get(v, ())))
    return sorted(seen)


def theorems_in(relpath):
    txt = open(os.path.join(COQ, relpath)).read()
    txt = re.sub(r"\(\*.*?\*\)", "", txt, flags=re.S)
    return re.findall(r"^\s*(?:Theorem|Example)\s+(\w+)", txt, flags=re.M)


def assumptions_from_log(log):
    """collect the axioms printed by Print Assumptions in a make/coqc log"""
    ax = set()
    for m in re.finditer(r"^([A-Za-z_][\w.]*)\s*:", log, flags=re.M):
        name = m.group(1)
        if "." in name and not name.startswith("File"):
            ax.add(name)
    return sorted(ax)


def print_assumptions(prop_vo_rel):
    """re-run coqc on Props file (cheap: deps are compiled) to capture Print Assumptions output"""
    src = prop_vo_rel[:-1] if prop_vo_rel.endswith(".vo") else prop_vo_rel
    p = subprocess.run(["timeout", "600", "coqc", "-Q", ".", "Verif", "-w",
                        "-notation-overridden,-deprecated-hint-without-locality", src],
                       cwd=COQ, capture_output=True, text=True)
    return p.returncode == 0, p.stdout + p.stderr


# --------------------------------------------------------------- cases files
CASES_HEADER = """From Coq Require Import ZArith List Bool PrimFloat String.
From Verif Require Import Scalar FInst.
Import ListNotations.
"""


def run_cases(prop, chunks, header_extra="", timeout=900):
    """chunks: list of (name, coq_text) where coq_text defines `cases` and `ok`
    (ok : case -> bool) -- each file is compiled with coqc and must print
    `= (n, [bad indices])`.  Returns list of (name, n, bad_indices, errtext)."""
    d = os.path.join(BUILD, "cases", prop)
    shutil.rmtree(d, ignore_errors=True)
    os.makedirs(d, exist_ok=True)
    names = []
    for name, text in chunks:
        fn = os.path.join(d, f"{name}.v")
        with open(fn, "w") as f:
            f.write(CASES_HEADER + header_extra + "\n" + text +
                    "\nEval vm_compute in (List.length cases, bad ok cases).\n")
        names.append(name)
    procs = []
    results = []
    pending = list(names)
    running = []
    while pending or running:
        while pending and len(running) < NCPU:
            n = pending.pop(0)
            p = subprocess.Popen(["timeout", str(timeout), "coqc", "-Q", COQ, "Verif", "-w",
                                  "-inexact-float,-notation-overridden", "-o",
                                  os.path.join(d, f"{n}.vo"), os.path.join(d, f"{n}.v")],
                                 stdout=subprocess.PIPE, stderr=subprocess.STDOUT, text=True)
            running.append((n, p))
        n, p = running.pop(0)
        out, _ = p.communicate()
        m = re.search(r"=\s*\(\s*(\d+)(?:%nat)?\s*,\s*\[([^\]]*)\]\s*\)", out.replace("\n", " "))
        if p.returncode != 0 or not m:
            results.append((n, 0, [], out[-3000:]))
        else:
            badl = [int(x) for x in re.findall(r"\d+", m.group(2))]
            results.append((n, int(m.group(1)), badl, ""))
    return results


def coq_eval(prop, name, text, timeout=600):
    """compile a scratch file and return coqc's output"""
    d = os.path.join(BUILD, "cases", prop)
    os.makedirs(d, exist_ok=True)
    fn = os.path.join(d, f"{name}.v")
    open(fn, "w").write(CASES_HEADER + text)
    p = subprocess.run(["timeout", str(timeout), "coqc", "-Q", COQ, "Verif", "-w",
                        "-inexact-float,-notation-overridden", "-o", fn + "o", fn],
                       capture_output=True, text=True)
    return p.returncode == 0, p.stdout + p.stderr


# ------------------------------------------------------------ known findings
def load_known():
    """known findings = known_findings.json + known_findings.d/*.json (read-only at run time)"""
    out = []
    p = os.path.join(VERIF, "known_findings.json")
    if os.path.exists(p):
        out += json.load(open(p))
    for f in sorted(glob.glob(os.path.join(VERIF, "known_findings.d", "*.json"))):
        out += json.load(open(f))
    return out


def match_known(prop, sig, known):
    for k in known:
        if k.get("kind") == "finding" and k.get("property") == prop:
            pat = k.get("signature", "")
            if sig == pat or re.fullmatch(pat, sig):
                return k
    return None


# --------------------------------------------------------------- the runner
class Check:
    """One run of one property's check.  Collects broken ties, violations,
    known findings and coverage, then reports."""

    def __init__(self, prop, tier, seed):
        self.prop, self.tier, self.seed = prop, tier, seed
        self.t0 = time.time()
        self.broken = []        # (kind, description)
        self.failures = []      # dict(sig, what, replay)
        self.cov = {"evaluations": 0, "samples": [], "strata": {}, "disagreements_checked": 0}
        self.distinct = set()
        self.obligations = []
        self.discharged = []
        self.axioms = []
        self.notes = []
        self.trusted = []
        self.known = load_known()
        self.assumptions = []
        self.fatal = None

    # -- steps ------------------------------------------------------------
    def step_sanity(self):
        hits = sanity_grep()
        if hits:
            self.fatal = "forbidden construct in the Coq development: " + "; ".join(hits[:5])
        return not hits

    def step_prove(self, units, prop_file, extra=()):
        """regenerate, build Props/<prop>.vo; record obligations"""
        with Lock():
            ok, msg = regen(units) if units else (True, "")
            self.notes.append(msg)
            if not ok:
                self.broken.append(("translator", msg[-600:]))
                # stale generated files must not be used
            self.obligations = theorems_in(prop_file)
            vo = prop_file + "o"
            ok2, log = make([vo] + list(extra))
            if not ok2:
                desc = parse_failure(log)
                m = re.match(r"([^:]+):(\d+):", desc)
                lemma = lemma_at(m.group(1), m.group(2)) if m else None
                self.broken.append(("proof", f"lemma {lemma}: {desc}" if lemma else desc))
                self.discharged = []
                return False
            ok3, out = print_assumptions(prop_file)
            self.axioms = assumptions_from_log(out)
            self.discharged = list(self.obligations) if ok3 else []
            if self.tier == "thorough" and ok3 and os.environ.get("VERIF_NO_COQCHK") != "1":
                self.coqchk(prop_file)
            return ok and ok3

    def coqchk(self, prop_file):
        """independent re-check of the compiled property file and everything it depends on (thorough tier).

        Default: one recursive coqchk run (the development AND the standard library files it loads).
        When the closure contains the large computational proofs (TwoSymRowNN, RegionCertsOKNN: one
        vm_compute each, which coqchk re-does with its own lazy machine, about a minute per file), every
        library of the development in the closure is checked exactly once with -norec, 14 at a time; the
        standard-library files are then loaded without being re-checked (stated in the evidence)."""
        lib = "Verif." + prop_file[:-2].replace("/", ".")
        closure = vo_closure(prop_file + "o")
        heavy = [v for v in closure if re.search(r"(TwoSymRow|RegionCertsOK)\d+\.vo$", v)]
        if not heavy:
            p = subprocess.run(["timeout", "3000", "coqchk", "-silent", "-o", "-Q", ".", "Verif", lib],
                               cwd=COQ, capture_output=True, text=True)
            outs = [(lib, p.returncode, p.stdout + p.stderr)]
            mode = "recursive (development and the standard library files it loads)"
        else:
            from concurrent.futures import ThreadPoolExecutor
            libs = ["Verif." + v[:-3].replace("/", ".") for v in closure]

            def one(l):
                q = subprocess.run(["timeout", "3000", "coqchk", "-silent", "-o", "-Q", ".", "Verif", "-norec", l],
                                   cwd=COQ, capture_output=True, text=True)
                return (l, q.returncode, q.stdout + q.stderr)
            with ThreadPoolExecutor(max_workers=14) as ex:
                outs = list(ex.map(one, libs))
            mode = (f"{len(libs)} libraries of the development each checked once with -norec in parallel "
                    "(standard-library files loaded, not re-checked)")
        bad = [(l, o) for l, rc, o in outs if rc != 0]
        if bad:
            self.broken.append(("proof", "coqchk rejected " + bad[0][0] + ": " + bad[0][1][-400:]))
            self.discharged = []
            return
        ax = set()
        for _, _, out in outs:
            if "* Axioms:" in out:
                ax.update(re.findall(r"^\s*([A-Za-z_][\w.]*\.[\w.']+)\s*$", out.split("* Axioms:")[-1], flags=re.M))
        self.notes.append("coqchk -o: ok")
        self.trusted.append("coqchk -o re-checked " + lib + ", mode: " + mode + "; axioms it lists: " +
                            (", ".join(sorted(ax)) or "<none>"))

    def count(self, stratum, case_key, nontrivial=True):
        self.cov["evaluations"] += 1
        self.cov["strata"][stratum] = self.cov["strata"].get(stratum, 0) + 1
        if nontrivial:
            self.distinct.add(hashlib.sha1(repr(case_key).encode()).hexdigest())

    def sample(self, obj, limit=6):
        if len(self.cov["samples"]) < limit:
            self.cov["samples"].append(obj)

    def disagreement(self, what, replay):
        """model and implementation differ on a concrete case"""
        self.cov["disagreements_checked"] += 1
        self.broken.append(("correspondence", what))
        self._corr_replays = getattr(self, "_corr_replays", [])
        self._corr_replays.append({"what": what, "replay": replay})

    def failure(self, sig, what, replay):
        """the PROPERTY fails on the implementation for a concrete input"""
        self.failures.append({"sig": sig, "what": what, "replay": replay})

    # -- report -----------------------------------------------------------
    def finish(self, level="proof", extra_cov=None, checker_cmd=None):
        wall = time.time() - self.t0
        os.makedirs(os.path.join(VERIF, "evidence"), exist_ok=True)
        rdir = os.path.join(BUILD, "replay")
        os.makedirs(rdir, exist_ok=True)
        lines = []
        nviol = 0
        if self.fatal:
            print(f"FATAL: {self.fatal}")
        seen_known = {}
        new = []
        for f in self.failures:
            k = match_known(self.prop, f["sig"], self.known)
            if k is not None:
                seen_known.setdefault(k["signature"], (k, f))
            else:
                new.append(f)
        for sig, (k, f) in seen_known.items():
            lines.append(f"KNOWN-FINDING: property={self.prop} {k['what']} [sig {f['sig']}]")
        # group new failures by signature; one VIOLATION line per signature
        bysig = {}
        for f in new:
            bysig.setdefault(f["sig"], f)
        for i, (sig, f) in enumerate(sorted(bysig.items())):
            path = os.path.join(rdir, f"{self.prop}-{i}.json")
            json.dump({"property": self.prop, "signature": sig, "what": f["what"],
                       "replay": f["replay"], "seed": self.seed,
                       "rerun": f"./check {self.prop} --replay {path}"}, open(path, "w"), indent=1,
                      default=str)
            lines.append(f"VIOLATION property={self.prop} replay={path}")
            nviol += 1
        if self.broken and not bysig:
            path = os.path.join(rdir, f"{self.prop}-tie.json")
            json.dump({"property": self.prop, "broken": [list(b) for b in self.broken],
                       "correspondence_cases": getattr(self, "_corr_replays", [])[:20],
                       "note": "a proof obligation, the translator or the model/implementation "
                               "correspondence no longer checks; the property oracle found no "
                               "failing input on the implementation", "seed": self.seed},
                      open(path, "w"), indent=1, default=str)
            lines.append(f"VIOLATION property={self.prop} replay={path} no-failing-input-found")
            nviol += 1
        elif self.broken:
            path = os.path.join(rdir, f"{self.prop}-tie.json")
            json.dump({"property": self.prop, "broken": [list(b) for b in self.broken],
                       "correspondence_cases": getattr(self, "_corr_replays", [])[:20],
                       "seed": self.seed}, open(path, "w"), indent=1, default=str)
            for b in self.broken[:10]:
                lines.append(f"BROKEN-TIE: property={self.prop} {b[0]}: {b[1][:300]}")
        cov = dict(self.cov)
        cov["distinct_nontrivial"] = len(self.distinct)
        cov["obligations"] = len(self.obligations)
        cov["discharged"] = len(self.discharged)
        cov["theorems"] = self.obligations
        cov["checker_cmd"] = checker_cmd or (
            f"cd /verif/coq && make Props/{self.prop}.vo  (coqc 8.16.1 full .vo build; "
            f"Print Assumptions under every theorem)")
        cov["trusted_base"] = (["Coq 8.16.1 kernel incl. vm_compute (no native_compute)"]
                               + [f"axiom (stdlib): {a}" for a in self.axioms] + self.trusted)
        cov["broken_ties"] = [list(b) for b in self.broken]
        cov["known_findings_reproduced"] = sorted(seen_known)
        cov["rule"] = cov.get("rule", "")
        if extra_cov:
            cov.update(extra_cov)
        ev = {"property_id": self.prop, "tier": self.tier, "seed": self.seed, "level": level,
              "coverage": cov, "assumptions": self.assumptions, "wall_s": round(wall, 2),
              "violations": nviol}
        json.dump(ev, open(os.path.join(VERIF, "evidence", f"{self.prop}.json"), "w"), indent=1,
                  default=str)
        for l in lines:
            print(l)
        print(f"{self.prop} [{self.tier}] obligations={len(self.obligations)} "
              f"discharged={len(self.discharged)} evaluations={cov['evaluations']} "
              f"distinct={len(self.distinct)} known={len(seen_known)} violations={nviol} "
              f"wall={wall:.1f}s")
        if self.fatal:
            return 2
        return 1 if nviol else 0
