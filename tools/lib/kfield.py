"""Exact arithmetic in K = Q(sqrt2, sqrt3) for the certificate generator
(python side; mirrors coq/Base/KField.v)."""
from fractions import Fraction as F
import math

S2, S3, S6 = math.sqrt(2), math.sqrt(3), math.sqrt(6)


class K:
    __slots__ = ("a", "b", "c", "d")

    def __init__(self, a=0, b=0, c=0, d=0):
        self.a, self.b, self.c, self.d = F(a), F(b), F(c), F(d)

    def __add__(self, o):
        o = kk(o)
        return K(self.a + o.a, self.b + o.b, self.c + o.c, self.d + o.d)

    __radd__ = __add__

    def __neg__(self):
        return K(-self.a, -self.b, -self.c, -self.d)

    def __sub__(self, o):
        return self + (-kk(o))

    def __rsub__(self, o):
        return kk(o) - self

    def __mul__(self, o):
        o = kk(o)
        a, b, c, d, e, f, g, h = self.a, self.b, self.c, self.d, o.a, o.b, o.c, o.d
        return K(a * e + 2 * b * f + 3 * c * g + 6 * d * h,
                 a * f + b * e + 3 * c * h + 3 * d * g,
                 a * g + c * e + 2 * b * h + 2 * d * f,
                 a * h + d * e + b * g + c * f)

    __rmul__ = __mul__

    def conj2(self):
        """sqrt2 -> -sqrt2"""
        return K(self.a, -self.b, self.c, -self.d)

    def inv(self):
        y = self * self.conj2()           # in Q(sqrt3): p + q sqrt3
        assert y.b == 0 and y.d == 0
        p, q = y.a, y.c
        n = p * p - 3 * q * q
        if n == 0:
            raise ZeroDivisionError
        return self.conj2() * K(p / n, 0, -q / n, 0)

    def __truediv__(self, o):
        return self * kk(o).inv()

    def is_zero(self):
        return self.a == 0 and self.b == 0 and self.c == 0 and self.d == 0

    def __eq__(self, o):
        return (self - kk(o)).is_zero()

    def __hash__(self):
        return hash((self.a, self.b, self.c, self.d))

    def __float__(self):
        return float(self.a) + float(self.b) * S2 + float(self.c) * S3 + float(self.d) * S6

    def sign(self):
        if self.is_zero():
            return 0
        # exact sign by rational enclosures (high precision decimals via Fractions of isqrt)
        prec = 10 ** 40
        lo2, hi2 = F(math.isqrt(2 * prec * prec), prec), F(math.isqrt(2 * prec * prec) + 1, prec)
        lo3, hi3 = F(math.isqrt(3 * prec * prec), prec), F(math.isqrt(3 * prec * prec) + 1, prec)
        lo6, hi6 = F(math.isqrt(6 * prec * prec), prec), F(math.isqrt(6 * prec * prec) + 1, prec)

        def iv(q, lo, hi):
            return (q * lo, q * hi) if q >= 0 else (q * hi, q * lo)
        l2, h2 = iv(self.b, lo2, hi2)
        l3, h3 = iv(self.c, lo3, hi3)
        l6, h6 = iv(self.d, lo6, hi6)
        lo, hi = self.a + l2 + l3 + l6, self.a + h2 + h3 + h6
        if lo > 0:
            return 1
        if hi < 0:
            return -1
        raise ArithmeticError("sign not decided")

    def coq(self):
        def q(x):
            return f"({x.numerator}#{x.denominator})" if x.denominator != 1 or x.numerator < 0 else f"{x.numerator}"
        return f"(mkK {q(self.a)} {q(self.b)} {q(self.c)} {q(self.d)})"

    def __repr__(self):
        return f"K({self.a},{self.b},{self.c},{self.d})"


def kk(x):
    return x if isinstance(x, K) else K(x)


def qmul(p, q):
    a, b, c, d = p
    e, f, g, h = q
    return (a * e - b * f - c * g - d * h, b * e + a * f - d * g + c * h,
            c * e + d * f + a * g - b * h, d * e - c * f + b * g + a * h)


def solve(cols, rhs):
    """Solve sum_j x_j * cols[j] = rhs exactly over K (cols: list of 4-vectors of K; len(cols) <= 4).
    Returns the list x or None when there is no unique solution."""
    n = len(cols)
    M = [[cols[j][i] for j in range(n)] + [rhs[i]] for i in range(4)]
    r = 0
    piv = []
    for c in range(n):
        p = next((i for i in range(r, 4) if not M[i][c].is_zero()), None)
        if p is None:
            return None
        M[r], M[p] = M[p], M[r]
        inv = M[r][c].inv()
        M[r] = [v * inv for v in M[r]]
        for i in range(4):
            if i != r and not M[i][c].is_zero():
                f = M[i][c]
                M[i] = [vi - f * vr for vi, vr in zip(M[i], M[r])]
        piv.append(c)
        r += 1
    for i in range(r, 4):
        if not M[i][n].is_zero():
            return None
    return [M[i][n] for i in range(n)]


# recognition tables --------------------------------------------------------
_TABLE = None


def table():
    """float value -> K for coefficients in quarters (|k| <= 4) with at most 2 non-zero terms,
    plus eighths for products of two such numbers"""
    global _TABLE
    if _TABLE is None:
        t = {}
        qs = [F(k, 8) for k in range(-8, 9)]
        for a in qs:
            for b in qs:
                for (i, j) in ((0, 1), (0, 2), (0, 3), (1, 2), (1, 3), (2, 3)):
                    co = [F(0)] * 4
                    co[i], co[j] = a, b
                    x = K(*co)
                    t.setdefault(round(float(x), 11), x)
        _TABLE = t
    return _TABLE


def recognise(x, what="value"):
    t = table()
    k = t.get(round(float(x), 11))
    if k is None or abs(float(k) - float(x)) > 1e-11:
        # small perturbations of the rounding key
        for dx in (1e-11, -1e-11):
            k = t.get(round(float(x) + dx, 11))
            if k is not None and abs(float(k) - float(x)) <= 1e-11:
                return k
        raise ValueError(f"{what} {x!r} is not in the recognised subset of Q(sqrt2, sqrt3)")
    return k
