NOTES = ("Every check regenerates coq/Gen from /repo, rebuilds Props/<id>.vo with a full .vo build, runs the "
         "model/implementation correspondence inside Coq and the property oracle on the implementation. "
         "Trusted base and per-property partial clauses: DESIGN.md sections 3, 4, 7.")
NOT_APPLICABLE = {}
CHECKS = {
    "C02": {
        "text": "Theorems over the reals about the Hamilton-product / vector-rotation / matrix kernels regenerated from the source on every run (associativity, action composition, matrix homomorphism, inverse, unit closure, isometry, improper parity algebra) and list-level theorems for the outer-product index layout for all shapes; tie = translator + Coq-evaluated correspondence on both backends; from_align_vectors is oracle-only (SciPy solver is external).",
        "note": "Coq kernel + stdlib real-number axioms (ClassicalDedekindReals.sig_forall_dec, sig_not_dec, functional_extensionality_dep, Classical_Prop.classic); translator; FInst float evaluator; numpy-quaternion and SciPy align_vectors as external libraries; float rounding not modelled.",
        "technique": "Coq proof (ring/nsatz over R on translated kernels, list induction) + differential correspondence",
    },
}
