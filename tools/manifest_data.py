import glob, json, os
HERE = os.path.dirname(os.path.abspath(__file__))
NOTES = ("Every check regenerates coq/Gen from /repo, rebuilds Props/<id>.vo with a full .vo build, runs the "
         "model/implementation correspondence inside Coq and the property oracle on the implementation. "
         "Trusted base and per-property partial clauses: DESIGN.md sections 3, 4, 7 and design.d/<id>.md.")
NOT_APPLICABLE = {}
CHECKS = {}
for f in sorted(glob.glob(os.path.join(HERE, "manifest.d", "C*.json"))):
    CHECKS[os.path.basename(f)[:-5]] = json.load(open(f))
