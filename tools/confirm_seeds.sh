#!/bin/bash
# Confirm each seeded change myself in a scratch worktree of /repo HEAD:
#   demo passes on the clean tree, fails with the patch, and the test suite with the patch has exactly the baseline failures.
# usage: tools/confirm_seeds.sh <seed-name> ...   (results in seeded/<name>/confirm.json)
set -u
BASE=/verif/build/suite_base.txt
for name in "$@"; do
  d=/verif/seeded/$name
  wt=/tmp/confirm/$name
  rm -rf "$wt"; mkdir -p /tmp/confirm
  git -C /repo worktree add --detach "$wt" >/dev/null 2>&1 || { echo "$name: cannot create worktree"; continue; }
  mkdir -p "$wt/_seed"; cp "$d/demo.py" "$wt/_seed/demo.py"
  ( cd "$wt" && timeout 1200 /venv/bin/python _seed/demo.py >/tmp/confirm/$name.clean.log 2>&1 ); clean=$?
  if git -C "$wt" apply --check "$d/patch.diff" 2>/tmp/confirm/$name.apply.log; then
    git -C "$wt" apply "$d/patch.diff"; applies=true
    ( cd "$wt" && timeout 1200 /venv/bin/python _seed/demo.py >/tmp/confirm/$name.patched.log 2>&1 ); patched=$?
    rm -rf "$wt/_seed"
    NPROC=5 /verif/tools/suite.sh "$wt" /tmp/confirm/$name.suite.txt >/dev/null
    if diff -q "$BASE" /tmp/confirm/$name.suite.txt >/dev/null; then suite=same; else suite=differs; fi
  else
    applies=false; patched=-1; suite=notrun
  fi
  head=$(git -C /repo rev-parse --short HEAD)
  python3 - "$d" "$clean" "$patched" "$applies" "$suite" "$head" <<'PY'
import json,sys,time
d,clean,patched,applies,suite,head=sys.argv[1:]
json.dump({"confirmed_at_repo_head":head,"patch_applies":applies=="true","demo_exit_clean_tree":int(clean),
           "demo_exit_patched_tree":int(patched),"suite_failing_set_vs_baseline":suite,
           "ok": applies=="true" and int(clean)==0 and int(patched)!=0 and suite=="same",
           "how":"tools/confirm_seeds.sh: scratch worktree of /repo HEAD; demo on clean tree, apply patch, demo again, full pytest run compared with the 22 baseline failures"},
          open(d+"/confirm.json","w"),indent=1)
print(d.split('/')[-1], open(d+"/confirm.json").read().replace("\n"," ")[:300])
PY
  git -C /repo worktree remove --force "$wt" >/dev/null 2>&1
done
